package wdc

// Independent reference model of the WDC 65C816 programming model, native mode (E=0).
// Written from the WDC datasheet / "Programming the 65816" opcode matrix, NOT from the code under test.

// Mem is the memory the model executes against.
type Mem interface {
	R(a uint32) byte
	W(a uint32, v byte)
}

const (
	FC = 1 << iota
	FZ
	FI
	FD
	FX
	FM
	FV
	FN
)

const (
	fC = FC
	fZ = FZ
	fI = FI
	fD = FD
	fX = FX
	fM = FM
	fV = FV
	fN = FN
)

// Arch is the programmer-visible 65C816 state.
type Arch struct {
	A, X, Y, S, D, PC uint16
	DBR, K            byte
	P                 byte
	E                 bool
	Stopped           bool
	WDM               byte
}

// Unspec describes what the programming model leaves open for the instruction just executed.

type Unspec struct {
	V          bool // V flag undefined (decimal arithmetic)
	ANZC       bool // accumulator and N,Z,C undefined (decimal arithmetic on non-BCD operands)
	Order      bool // result depends on bus-cycle order (an address is both read as operand/pointer and written)
	LeftNative bool
}

// Mode is an addressing mode of the 65C816.
type Mode int

const (
	MImp Mode = iota
	MAcc
	MImmM
	MImmX
	MImm8
	MImm16
	MDp
	MDpX
	MDpY
	MDpInd
	MDpIndX
	MDpIndY
	MDpIndL
	MDpIndLY
	MAbs
	MAbsX
	MAbsY
	MLong
	MLongX
	MSr
	MSrIndY
	MRel8
	MRel16
	MAbsInd
	MAbsIndX
	MAbsIndL
	MBlock
)

type Opinfo struct {
	Mn string
	Md Mode
}

// The 65C816 opcode matrix (mnemonic, addressing mode) in opcode order.
var Optab = [256]Opinfo{
	{"brk", MImm8}, {"ora", MDpIndX}, {"cop", MImm8}, {"ora", MSr}, {"tsb", MDp}, {"ora", MDp}, {"asl", MDp}, {"ora", MDpIndL}, {"php", MImp}, {"ora", MImmM}, {"asl", MAcc}, {"phd", MImp}, {"tsb", MAbs}, {"ora", MAbs}, {"asl", MAbs}, {"ora", MLong},
	{"bpl", MRel8}, {"ora", MDpIndY}, {"ora", MDpInd}, {"ora", MSrIndY}, {"trb", MDp}, {"ora", MDpX}, {"asl", MDpX}, {"ora", MDpIndLY}, {"clc", MImp}, {"ora", MAbsY}, {"inc", MAcc}, {"tcs", MImp}, {"trb", MAbs}, {"ora", MAbsX}, {"asl", MAbsX}, {"ora", MLongX},
	{"jsr", MAbs}, {"and", MDpIndX}, {"jsl", MLong}, {"and", MSr}, {"bit", MDp}, {"and", MDp}, {"rol", MDp}, {"and", MDpIndL}, {"plp", MImp}, {"and", MImmM}, {"rol", MAcc}, {"pld", MImp}, {"bit", MAbs}, {"and", MAbs}, {"rol", MAbs}, {"and", MLong},
	{"bmi", MRel8}, {"and", MDpIndY}, {"and", MDpInd}, {"and", MSrIndY}, {"bit", MDpX}, {"and", MDpX}, {"rol", MDpX}, {"and", MDpIndLY}, {"sec", MImp}, {"and", MAbsY}, {"dec", MAcc}, {"tsc", MImp}, {"bit", MAbsX}, {"and", MAbsX}, {"rol", MAbsX}, {"and", MLongX},
	{"rti", MImp}, {"eor", MDpIndX}, {"wdm", MImm8}, {"eor", MSr}, {"mvp", MBlock}, {"eor", MDp}, {"lsr", MDp}, {"eor", MDpIndL}, {"pha", MImp}, {"eor", MImmM}, {"lsr", MAcc}, {"phk", MImp}, {"jmp", MAbs}, {"eor", MAbs}, {"lsr", MAbs}, {"eor", MLong},
	{"bvc", MRel8}, {"eor", MDpIndY}, {"eor", MDpInd}, {"eor", MSrIndY}, {"mvn", MBlock}, {"eor", MDpX}, {"lsr", MDpX}, {"eor", MDpIndLY}, {"cli", MImp}, {"eor", MAbsY}, {"phy", MImp}, {"tcd", MImp}, {"jmp", MLong}, {"eor", MAbsX}, {"lsr", MAbsX}, {"eor", MLongX},
	{"rts", MImp}, {"adc", MDpIndX}, {"per", MRel16}, {"adc", MSr}, {"stz", MDp}, {"adc", MDp}, {"ror", MDp}, {"adc", MDpIndL}, {"pla", MImp}, {"adc", MImmM}, {"ror", MAcc}, {"rtl", MImp}, {"jmp", MAbsInd}, {"adc", MAbs}, {"ror", MAbs}, {"adc", MLong},
	{"bvs", MRel8}, {"adc", MDpIndY}, {"adc", MDpInd}, {"adc", MSrIndY}, {"stz", MDpX}, {"adc", MDpX}, {"ror", MDpX}, {"adc", MDpIndLY}, {"sei", MImp}, {"adc", MAbsY}, {"ply", MImp}, {"tdc", MImp}, {"jmp", MAbsIndX}, {"adc", MAbsX}, {"ror", MAbsX}, {"adc", MLongX},
	{"bra", MRel8}, {"sta", MDpIndX}, {"brl", MRel16}, {"sta", MSr}, {"sty", MDp}, {"sta", MDp}, {"stx", MDp}, {"sta", MDpIndL}, {"dey", MImp}, {"bit", MImmM}, {"txa", MImp}, {"phb", MImp}, {"sty", MAbs}, {"sta", MAbs}, {"stx", MAbs}, {"sta", MLong},
	{"bcc", MRel8}, {"sta", MDpIndY}, {"sta", MDpInd}, {"sta", MSrIndY}, {"sty", MDpX}, {"sta", MDpX}, {"stx", MDpY}, {"sta", MDpIndLY}, {"tya", MImp}, {"sta", MAbsY}, {"txs", MImp}, {"txy", MImp}, {"stz", MAbs}, {"sta", MAbsX}, {"stz", MAbsX}, {"sta", MLongX},
	{"ldy", MImmX}, {"lda", MDpIndX}, {"ldx", MImmX}, {"lda", MSr}, {"ldy", MDp}, {"lda", MDp}, {"ldx", MDp}, {"lda", MDpIndL}, {"tay", MImp}, {"lda", MImmM}, {"tax", MImp}, {"plb", MImp}, {"ldy", MAbs}, {"lda", MAbs}, {"ldx", MAbs}, {"lda", MLong},
	{"bcs", MRel8}, {"lda", MDpIndY}, {"lda", MDpInd}, {"lda", MSrIndY}, {"ldy", MDpX}, {"lda", MDpX}, {"ldx", MDpY}, {"lda", MDpIndLY}, {"clv", MImp}, {"lda", MAbsY}, {"tsx", MImp}, {"tyx", MImp}, {"ldy", MAbsX}, {"lda", MAbsX}, {"ldx", MAbsY}, {"lda", MLongX},
	{"cpy", MImmX}, {"cmp", MDpIndX}, {"rep", MImm8}, {"cmp", MSr}, {"cpy", MDp}, {"cmp", MDp}, {"dec", MDp}, {"cmp", MDpIndL}, {"iny", MImp}, {"cmp", MImmM}, {"dex", MImp}, {"wai", MImp}, {"cpy", MAbs}, {"cmp", MAbs}, {"dec", MAbs}, {"cmp", MLong},
	{"bne", MRel8}, {"cmp", MDpIndY}, {"cmp", MDpInd}, {"cmp", MSrIndY}, {"pei", MDp}, {"cmp", MDpX}, {"dec", MDpX}, {"cmp", MDpIndLY}, {"cld", MImp}, {"cmp", MAbsY}, {"phx", MImp}, {"stp", MImp}, {"jmp", MAbsIndL}, {"cmp", MAbsX}, {"dec", MAbsX}, {"cmp", MLongX},
	{"cpx", MImmX}, {"sbc", MDpIndX}, {"sep", MImm8}, {"sbc", MSr}, {"cpx", MDp}, {"sbc", MDp}, {"inc", MDp}, {"sbc", MDpIndL}, {"inx", MImp}, {"sbc", MImmM}, {"nop", MImp}, {"xba", MImp}, {"cpx", MAbs}, {"sbc", MAbs}, {"inc", MAbs}, {"sbc", MLong},
	{"beq", MRel8}, {"sbc", MDpIndY}, {"sbc", MDpInd}, {"sbc", MSrIndY}, {"pea", MImm16}, {"sbc", MDpX}, {"inc", MDpX}, {"sbc", MDpIndLY}, {"sed", MImp}, {"sbc", MAbsY}, {"plx", MImp}, {"xce", MImp}, {"jsr", MAbsIndX}, {"sbc", MAbsX}, {"inc", MAbsX}, {"sbc", MLongX},
}

// InsLen returns the architectural length of the instruction for the given M/X flags.
func InsLen(op byte, m8, x8 bool) int {
	switch Optab[op].Md {
	case MImp, MAcc:
		return 1
	case MImmM:
		if m8 {
			return 2
		}
		return 3
	case MImmX:
		if x8 {
			return 2
		}
		return 3
	case MImm8, MDp, MDpX, MDpY, MDpInd, MDpIndX, MDpIndY, MDpIndL, MDpIndLY, MSr, MSrIndY, MRel8:
		return 2
	case MImm16, MAbs, MAbsX, MAbsY, MRel16, MAbsInd, MAbsIndX, MAbsIndL, MBlock:
		return 3
	case MLong, MLongX:
		return 4
	}
	panic("mode")
}

type exec struct {
	s      *Arch
	m      Mem
	reads  map[uint32]bool // operand/pointer/data reads
	writes map[uint32]bool
	rmw    map[uint32]bool // data addresses read as RMW source (allowed to be rewritten)
	order  bool
}

func (x *exec) rd(a uint32) byte {
	a &= 0xffffff
	if x.writes[a] {
		x.order = true
	}
	x.reads[a] = true
	return x.m.R(a)
}
func (x *exec) wr(a uint32, v byte) {
	a &= 0xffffff
	if x.reads[a] && !x.rmw[a] {
		x.order = true
	}
	x.writes[a] = true
	x.m.W(a, v)
}
func (x *exec) m8() bool { return x.s.P&fM != 0 }
func (x *exec) x8() bool { return x.s.P&fX != 0 }

func (x *exec) fetch() byte {
	v := x.rd(uint32(x.s.K)<<16 | uint32(x.s.PC))
	x.s.PC++
	return v
}
func (x *exec) fetch16() uint16 {
	l := x.fetch()
	h := x.fetch()
	return uint16(h)<<8 | uint16(l)
}
func (x *exec) push(v byte) {
	x.wr(uint32(x.s.S), v)
	x.s.S--
}
func (x *exec) push16(v uint16) { x.push(byte(v >> 8)); x.push(byte(v)) }
func (x *exec) pull() byte {
	x.s.S++
	return x.rd(uint32(x.s.S))
}
func (x *exec) pull16() uint16 {
	l := x.pull()
	h := x.pull()
	return uint16(h)<<8 | uint16(l)
}

// operand location: either bank-0-wrapping (dp, sr) or linear 24-bit
type loc struct {
	addr  uint32
	bank0 bool
}

func (l loc) at(i uint32) uint32 {
	if l.bank0 {
		return (l.addr + i) & 0xffff
	}
	return (l.addr + i) & 0xffffff
}

func (x *exec) rd16b0(a uint16) uint16 {
	return uint16(x.rd(uint32(a))) | uint16(x.rd(uint32(a+1)))<<8
}

func (x *exec) idx(r uint16) uint32 { return uint32(r) }

func (x *exec) ea(md Mode) loc {
	s := x.s
	switch md {
	case MDp:
		return loc{uint32(s.D + uint16(x.fetch())), true}
	case MDpX:
		return loc{uint32(s.D + uint16(x.fetch()) + s.X), true}
	case MDpY:
		return loc{uint32(s.D + uint16(x.fetch()) + s.Y), true}
	case MDpInd:
		p := x.rd16b0(s.D + uint16(x.fetch()))
		return loc{uint32(s.DBR)<<16 | uint32(p), false}
	case MDpIndX:
		p := x.rd16b0(s.D + uint16(x.fetch()) + s.X)
		return loc{uint32(s.DBR)<<16 | uint32(p), false}
	case MDpIndY:
		p := x.rd16b0(s.D + uint16(x.fetch()))
		return loc{(uint32(s.DBR)<<16 | uint32(p)) + uint32(s.Y), false}
	case MDpIndL, MDpIndLY:
		a := s.D + uint16(x.fetch())
		p := uint32(x.rd(uint32(a))) | uint32(x.rd(uint32(a+1)))<<8 | uint32(x.rd(uint32(a+2)))<<16
		if md == MDpIndLY {
			p += uint32(s.Y)
		}
		return loc{p, false}
	case MAbs:
		return loc{uint32(s.DBR)<<16 | uint32(x.fetch16()), false}
	case MAbsX:
		return loc{(uint32(s.DBR)<<16 | uint32(x.fetch16())) + uint32(s.X), false}
	case MAbsY:
		return loc{(uint32(s.DBR)<<16 | uint32(x.fetch16())) + uint32(s.Y), false}
	case MLong, MLongX:
		l := uint32(x.fetch16())
		l |= uint32(x.fetch()) << 16
		if md == MLongX {
			l += uint32(s.X)
		}
		return loc{l, false}
	case MSr:
		return loc{uint32(s.S + uint16(x.fetch())), true}
	case MSrIndY:
		p := x.rd16b0(s.S + uint16(x.fetch()))
		return loc{(uint32(s.DBR)<<16 | uint32(p)) + uint32(s.Y), false}
	}
	panic("ea mode")
}

// read operand of width w8 (true: 8 bit)
func (x *exec) operand(md Mode, w8 bool, rmw bool) (v uint16, l loc, isMem bool) {
	switch md {
	case MImmM, MImmX, MImm8, MImm16:
		if w8 {
			return uint16(x.fetch()), loc{}, false
		}
		return x.fetch16(), loc{}, false
	}
	l = x.ea(md)
	if rmw {
		x.rmw[l.at(0)] = true
		if !w8 {
			x.rmw[l.at(1)] = true
		}
	}
	v = uint16(x.rd(l.at(0)))
	if !w8 {
		v |= uint16(x.rd(l.at(1))) << 8
	}
	return v, l, true
}
func (x *exec) store(l loc, v uint16, w8 bool) {
	x.wr(l.at(0), byte(v))
	if !w8 {
		x.wr(l.at(1), byte(v>>8))
	}
}

func (x *exec) setf(f byte, on bool) {
	if on {
		x.s.P |= f
	} else {
		x.s.P &^= f
	}
}
func (x *exec) nz(v uint16, w8 bool) {
	if w8 {
		x.setf(fZ, v&0xff == 0)
		x.setf(fN, v&0x80 != 0)
	} else {
		x.setf(fZ, v == 0)
		x.setf(fN, v&0x8000 != 0)
	}
}
func (x *exec) setA(v uint16, w8 bool) {
	if w8 {
		x.s.A = x.s.A&0xff00 | v&0xff
	} else {
		x.s.A = v
	}
}
func (x *exec) getA(w8 bool) uint16 {
	if w8 {
		return x.s.A & 0xff
	}
	return x.s.A
}
func (x *exec) applyXRule() {
	if x.s.P&fX != 0 {
		x.s.X &= 0xff
		x.s.Y &= 0xff
	}
}
func (x *exec) setP(p byte) {
	x.s.P = p
	x.applyXRule()
}

func isBCD(v uint16, w8 bool) bool {
	n := 4
	if w8 {
		n = 2
	}
	for i := 0; i < n; i++ {
		if v>>(4*uint(i))&0xf > 9 {
			return false
		}
	}
	return true
}
func fromBCD(v uint16) int {
	return int(v&0xf) + 10*int(v>>4&0xf) + 100*int(v>>8&0xf) + 1000*int(v>>12&0xf)
}
func toBCD(n int) uint16 {
	return uint16(n%10) | uint16(n/10%10)<<4 | uint16(n/100%10)<<8 | uint16(n/1000%10)<<12
}

func (x *exec) adc(d uint16, w8 bool, sub bool, u *Unspec) {
	a := x.getA(w8)
	c := 0
	if x.s.P&fC != 0 {
		c = 1
	}
	mask, sign := uint32(0xffff), uint32(0x8000)
	if w8 {
		mask, sign = 0xff, 0x80
	}
	if x.s.P&fD == 0 {
		dd := uint32(d)
		if sub {
			dd = ^dd & mask
		}
		sum := uint32(a) + dd + uint32(c)
		x.setf(fC, sum > mask)
		x.setf(fV, (^(uint32(a)^dd))&(uint32(a)^sum)&sign != 0)
		x.setA(uint16(sum&mask), w8)
		x.nz(uint16(sum&mask), w8)
		return
	}
	u.V = true
	if !isBCD(a, w8) || !isBCD(d, w8) {
		u.ANZC = true
		return
	}
	mod := 10000
	if w8 {
		mod = 100
	}
	var r int
	if !sub {
		r = fromBCD(a) + fromBCD(d) + c
		x.setf(fC, r >= mod)
		r %= mod
	} else {
		r = fromBCD(a) - fromBCD(d) - (1 - c)
		x.setf(fC, r >= 0)
		if r < 0 {
			r += mod
		}
	}
	res := toBCD(r)
	x.setA(res, w8)
	x.nz(res, w8)
}

func (x *exec) cmp(r, d uint16, w8 bool) {
	if w8 {
		r &= 0xff
		d &= 0xff
	}
	x.setf(fC, r >= d)
	x.nz(r-d, w8)
}

func (x *exec) branch(cond bool) {
	d := int8(x.fetch())
	if cond {
		x.s.PC += uint16(int16(d))
	}
}

// Step executes one instruction (one byte-move iteration for MVN/MVP) on the model.
func Step(s *Arch, m Mem) (u Unspec) {
	x := &exec{s: s, m: m, reads: map[uint32]bool{}, writes: map[uint32]bool{}, rmw: map[uint32]bool{}}
	pc0 := s.PC
	op := x.fetch()
	oi := Optab[op]
	m8, x8 := x.m8(), x.x8()
	P := func(f byte) bool { return s.P&f != 0 }

	switch oi.Mn {
	case "adc", "sbc":
		d, _, _ := x.operand(oi.Md, m8, false)
		x.adc(d, m8, oi.Mn == "sbc", &u)
	case "and", "eor", "ora":
		d, _, _ := x.operand(oi.Md, m8, false)
		a := x.getA(m8)
		switch oi.Mn {
		case "and":
			a &= d
		case "eor":
			a ^= d
		case "ora":
			a |= d
		}
		x.setA(a, m8)
		x.nz(a, m8)
	case "asl", "lsr", "rol", "ror", "inc", "dec":
		var v uint16
		var l loc
		if oi.Md == MAcc {
			v = x.getA(m8)
		} else {
			v, l, _ = x.operand(oi.Md, m8, true)
		}
		top := uint16(0x8000)
		if m8 {
			top = 0x80
		}
		cin := uint16(0)
		if P(fC) {
			cin = 1
		}
		switch oi.Mn {
		case "asl":
			x.setf(fC, v&top != 0)
			v <<= 1
		case "rol":
			x.setf(fC, v&top != 0)
			v = v<<1 | cin
		case "lsr":
			x.setf(fC, v&1 != 0)
			v >>= 1
		case "ror":
			x.setf(fC, v&1 != 0)
			v >>= 1
			if cin != 0 {
				v |= top
			}
		case "inc":
			v++
		case "dec":
			v--
		}
		if m8 {
			v &= 0xff
		}
		x.nz(v, m8)
		if oi.Md == MAcc {
			x.setA(v, m8)
		} else {
			x.store(l, v, m8)
		}
	case "bit":
		d, _, isMem := x.operand(oi.Md, m8, false)
		x.setf(fZ, x.getA(m8)&d == 0)
		if isMem {
			if m8 {
				x.setf(fN, d&0x80 != 0)
				x.setf(fV, d&0x40 != 0)
			} else {
				x.setf(fN, d&0x8000 != 0)
				x.setf(fV, d&0x4000 != 0)
			}
		}
	case "trb", "tsb":
		d, l, _ := x.operand(oi.Md, m8, true)
		a := x.getA(m8)
		x.setf(fZ, a&d == 0)
		if oi.Mn == "tsb" {
			d |= a
		} else {
			d &^= a
		}
		x.store(l, d, m8)
	case "cmp":
		d, _, _ := x.operand(oi.Md, m8, false)
		x.cmp(x.getA(m8), d, m8)
	case "cpx":
		d, _, _ := x.operand(oi.Md, x8, false)
		x.cmp(s.X, d, x8)
	case "cpy":
		d, _, _ := x.operand(oi.Md, x8, false)
		x.cmp(s.Y, d, x8)
	case "lda":
		d, _, _ := x.operand(oi.Md, m8, false)
		x.setA(d, m8)
		x.nz(d, m8)
	case "ldx":
		d, _, _ := x.operand(oi.Md, x8, false)
		s.X = d
		x.nz(d, x8)
	case "ldy":
		d, _, _ := x.operand(oi.Md, x8, false)
		s.Y = d
		x.nz(d, x8)
	case "sta":
		x.store(x.ea(oi.Md), x.getA(m8), m8)
	case "stx":
		x.store(x.ea(oi.Md), s.X, x8)
	case "sty":
		x.store(x.ea(oi.Md), s.Y, x8)
	case "stz":
		x.store(x.ea(oi.Md), 0, m8)
	case "bpl":
		x.branch(!P(fN))
	case "bmi":
		x.branch(P(fN))
	case "bvc":
		x.branch(!P(fV))
	case "bvs":
		x.branch(P(fV))
	case "bcc":
		x.branch(!P(fC))
	case "bcs":
		x.branch(P(fC))
	case "bne":
		x.branch(!P(fZ))
	case "beq":
		x.branch(P(fZ))
	case "bra":
		x.branch(true)
	case "brl":
		d := x.fetch16()
		s.PC += d
	case "per":
		d := x.fetch16()
		x.push16(s.PC + d)
	case "pea":
		x.push16(x.fetch16())
	case "pei":
		d, _, _ := x.operand(MDp, false, false)
		x.push16(d)
	case "brk", "cop":
		x.fetch() // signature byte
		x.push(s.K)
		x.push16(s.PC)
		x.push(s.P)
		s.P |= fI
		s.P &^= fD
		s.K = 0
		vec := uint16(0xffe6)
		if oi.Mn == "cop" {
			vec = 0xffe4
		}
		// the vector is fetched after the pushes (documented sequence of the interrupt entry): a stack that overlaps
		// the vector makes the new PC come from the freshly stacked bytes; this order is defined, not left open
		s.PC = uint16(x.m.R(uint32(vec))) | uint16(x.m.R(uint32(vec+1)))<<8
		x.reads[uint32(vec)], x.reads[uint32(vec+1)] = true, true
	case "jmp":
		switch oi.Md {
		case MAbs:
			s.PC = x.fetch16()
		case MLong:
			pc := x.fetch16()
			s.K = x.fetch()
			s.PC = pc
		case MAbsInd:
			s.PC = x.rd16b0(x.fetch16())
		case MAbsIndL:
			a := x.fetch16()
			pc := x.rd16b0(a)
			s.K = x.rd(uint32(a + 2))
			s.PC = pc
		case MAbsIndX:
			a := x.fetch16() + s.X
			k := uint32(s.K) << 16
			s.PC = uint16(x.rd(k|uint32(a))) | uint16(x.rd(k|uint32(a+1)))<<8
		}
	case "jsr":
		if oi.Md == MAbs {
			t := x.fetch16()
			x.push16(s.PC - 1)
			s.PC = t
		} else {
			a := x.fetch16() + s.X
			x.push16(s.PC - 1)
			k := uint32(s.K) << 16
			s.PC = uint16(x.rd(k|uint32(a))) | uint16(x.rd(k|uint32(a+1)))<<8
		}
	case "jsl":
		pc := x.fetch16()
		k := x.fetch()
		x.push(s.K)
		x.push16(s.PC - 1)
		s.K, s.PC = k, pc
	case "rts":
		s.PC = x.pull16() + 1
	case "rtl":
		s.PC = x.pull16() + 1
		s.K = x.pull()
	case "rti":
		x.setP(x.pull())
		s.PC = x.pull16()
		s.K = x.pull()
	case "php":
		x.push(s.P)
	case "plp":
		x.setP(x.pull())
	case "pha":
		if m8 {
			x.push(byte(s.A))
		} else {
			x.push16(s.A)
		}
	case "phx":
		if x8 {
			x.push(byte(s.X))
		} else {
			x.push16(s.X)
		}
	case "phy":
		if x8 {
			x.push(byte(s.Y))
		} else {
			x.push16(s.Y)
		}
	case "pla":
		if m8 {
			v := uint16(x.pull())
			x.setA(v, true)
			x.nz(v, true)
		} else {
			s.A = x.pull16()
			x.nz(s.A, false)
		}
	case "plx":
		if x8 {
			s.X = uint16(x.pull())
		} else {
			s.X = x.pull16()
		}
		x.nz(s.X, x8)
	case "ply":
		if x8 {
			s.Y = uint16(x.pull())
		} else {
			s.Y = x.pull16()
		}
		x.nz(s.Y, x8)
	case "phb":
		x.push(s.DBR)
	case "phd":
		x.push16(s.D)
	case "phk":
		x.push(s.K)
	case "plb":
		s.DBR = x.pull()
		x.nz(uint16(s.DBR), true)
	case "pld":
		s.D = x.pull16()
		x.nz(s.D, false)
	case "rep":
		x.setP(s.P &^ x.fetch())
	case "sep":
		x.setP(s.P | x.fetch())
	case "clc":
		s.P &^= fC
	case "sec":
		s.P |= fC
	case "cli":
		s.P &^= fI
	case "sei":
		s.P |= fI
	case "cld":
		s.P &^= fD
	case "sed":
		s.P |= fD
	case "clv":
		s.P &^= fV
	case "nop", "wai":
	case "wdm":
		s.WDM = x.fetch()
	case "stp":
		s.Stopped = true
	case "xba":
		s.A = s.A>>8 | s.A<<8
		x.nz(s.A, true)
	case "xce":
		c := P(fC)
		x.setf(fC, s.E)
		s.E = c
		if s.E {
			s.P |= fM | fX
			x.applyXRule()
			s.S = 0x0100 | s.S&0xff
			u.LeftNative = true
		}
	case "tax":
		if x8 {
			s.X = s.A & 0xff
		} else {
			s.X = s.A
		}
		x.nz(s.X, x8)
	case "tay":
		if x8 {
			s.Y = s.A & 0xff
		} else {
			s.Y = s.A
		}
		x.nz(s.Y, x8)
	case "txa":
		x.setA(s.X, m8)
		x.nz(s.X, m8)
	case "tya":
		x.setA(s.Y, m8)
		x.nz(s.Y, m8)
	case "tsx":
		if x8 {
			s.X = s.S & 0xff
		} else {
			s.X = s.S
		}
		x.nz(s.X, x8)
	case "txs":
		s.S = s.X
	case "txy":
		s.Y = s.X
		x.nz(s.Y, x8)
	case "tyx":
		s.X = s.Y
		x.nz(s.X, x8)
	case "tcd":
		s.D = s.A
		x.nz(s.D, false)
	case "tdc":
		s.A = s.D
		x.nz(s.A, false)
	case "tcs":
		s.S = s.A
	case "tsc":
		s.A = s.S
		x.nz(s.A, false)
	case "inx", "iny", "dex", "dey":
		r := &s.X
		if oi.Mn[2] == 'y' {
			r = &s.Y
		}
		if oi.Mn[0] == 'i' {
			*r++
		} else {
			*r--
		}
		if x8 {
			*r &= 0xff
		}
		x.nz(*r, x8)
	case "mvn", "mvp":
		dst := x.fetch()
		src := x.fetch()
		s.DBR = dst
		v := x.rd(uint32(src)<<16 | uint32(s.X))
		x.rmw[uint32(src)<<16|uint32(s.X)] = true
		x.wr(uint32(dst)<<16|uint32(s.Y), v)
		if oi.Mn == "mvn" {
			s.X++
			s.Y++
		} else {
			s.X--
			s.Y--
		}
		if x8 {
			s.X &= 0xff
			s.Y &= 0xff
		}
		s.A--
		if s.A != 0xffff {
			s.PC = pc0
		}
	default:
		panic("unhandled " + oi.Mn)
	}
	u.Order = x.order
	return
}
