package wdc

import "fmt"

// ModeName is a short name of each addressing mode (evidence histograms, catalogue keys).
var ModeName = map[Mode]string{MImp: "imp", MAcc: "acc", MImmM: "immM", MImmX: "immX", MImm8: "imm8", MImm16: "imm16",
	MDp: "dp", MDpX: "dp,x", MDpY: "dp,y", MDpInd: "(dp)", MDpIndX: "(dp,x)", MDpIndY: "(dp),y", MDpIndL: "[dp]", MDpIndLY: "[dp],y",
	MAbs: "abs", MAbsX: "abs,x", MAbsY: "abs,y", MLong: "long", MLongX: "long,x", MSr: "sr,s", MSrIndY: "(sr,s),y",
	MRel8: "rel8", MRel16: "rel16", MAbsInd: "(abs)", MAbsIndX: "(abs,x)", MAbsIndL: "[abs]", MBlock: "block"}

// Opcode finds the opcode byte of (mnemonic, mode) in the matrix.
func Opcode(mn string, md Mode) (byte, bool) {
	for i, oi := range Optab {
		if oi.Mn == mn && oi.Md == md {
			return byte(i), true
		}
	}
	return 0, false
}

// Decoded is one decoded instruction.
type Decoded struct {
	Op      byte
	Mn      string
	Md      Mode
	Len     int
	Operand uint32 // little-endian operand value (block move: dst | src<<8)
}

// Decode decodes the instruction at b[0:] for the given widths; b must hold at least 4 bytes.
func Decode(b []byte, m8, x8 bool) Decoded {
	op := b[0]
	oi := Optab[op]
	n := InsLen(op, m8, x8)
	var v uint32
	for i := 1; i < n; i++ {
		v |= uint32(b[i]) << (8 * uint(i-1))
	}
	return Decoded{Op: op, Mn: oi.Mn, Md: oi.Md, Len: n, Operand: v}
}

// Render gives the canonical operand text without blanks and without '$':
// e.g. "#12", "#1234", "12,X", "(12),Y", "[12],Y", "1234,X", "123456,X", "12,S", "(12,S),Y",
// "(1234)", "(1234,X)", "[1234]", block move "#ss,#dd" (source bank first, as assemblers write it).
// Relative modes render the destination address (16 bits) computed from pc.
func Render(d Decoded, pc uint16) string {
	v := d.Operand
	switch d.Md {
	case MImp:
		return ""
	case MAcc:
		return "A"
	case MImmM, MImmX, MImm8, MImm16:
		if d.Len == 2 {
			return fmt.Sprintf("#%02x", v)
		}
		return fmt.Sprintf("#%04x", v)
	case MDp:
		return fmt.Sprintf("%02x", v)
	case MDpX:
		return fmt.Sprintf("%02x,X", v)
	case MDpY:
		return fmt.Sprintf("%02x,Y", v)
	case MDpInd:
		return fmt.Sprintf("(%02x)", v)
	case MDpIndX:
		return fmt.Sprintf("(%02x,X)", v)
	case MDpIndY:
		return fmt.Sprintf("(%02x),Y", v)
	case MDpIndL:
		return fmt.Sprintf("[%02x]", v)
	case MDpIndLY:
		return fmt.Sprintf("[%02x],Y", v)
	case MAbs:
		return fmt.Sprintf("%04x", v)
	case MAbsX:
		return fmt.Sprintf("%04x,X", v)
	case MAbsY:
		return fmt.Sprintf("%04x,Y", v)
	case MLong:
		return fmt.Sprintf("%06x", v)
	case MLongX:
		return fmt.Sprintf("%06x,X", v)
	case MSr:
		return fmt.Sprintf("%02x,S", v)
	case MSrIndY:
		return fmt.Sprintf("(%02x,S),Y", v)
	case MAbsInd:
		return fmt.Sprintf("(%04x)", v)
	case MAbsIndX:
		return fmt.Sprintf("(%04x,X)", v)
	case MAbsIndL:
		return fmt.Sprintf("[%04x]", v)
	case MBlock:
		return fmt.Sprintf("#%02x,#%02x", v>>8&0xff, v&0xff)
	case MRel8:
		return fmt.Sprintf("%04x", pc+2+uint16(int16(int8(v))))
	case MRel16:
		return fmt.Sprintf("%04x", pc+3+uint16(v))
	}
	return "?"
}
