package rig

import (
	"fmt"
	"runtime"
	"sync"
	"sync/atomic"
)

// MinFail keeps the smallest failing point of a parallel enumeration (the sweep's
// counterpart of shrinking: the first failing point in enumeration order).
type MinFail struct {
	mu   sync.Mutex
	has  bool
	at   uint64
	err  error
	data interface{}
	flag int32
}

func (m *MinFail) Report(at uint64, err error, data interface{}) {
	m.mu.Lock()
	if !m.has || at < m.at {
		m.has, m.at, m.err, m.data = true, at, err, data
		atomic.StoreInt32(&m.flag, 1)
	}
	m.mu.Unlock()
}

func (m *MinFail) Failed() bool { return atomic.LoadInt32(&m.flag) != 0 }

func (m *MinFail) Get() (uint64, error, interface{}) {
	m.mu.Lock()
	defer m.mu.Unlock()
	return m.at, m.err, m.data
}

// ParChunks calls f(lo, hi) for consecutive chunks of [0, n) on all cores.  A panic inside f
// is caught and returned (first one) together with the chunk start.
func ParChunks(n, chunk uint64, f func(lo, hi uint64)) (panicAt uint64, panicErr error) {
	var pmu sync.Mutex
	g := f
	f = func(lo, hi uint64) {
		defer func() {
			if p := recover(); p != nil {
				pmu.Lock()
				if panicErr == nil || lo < panicAt {
					panicAt, panicErr = lo, fmt.Errorf("panic: %v", p)
				}
				pmu.Unlock()
			}
		}()
		g(lo, hi)
	}
	workers := runtime.GOMAXPROCS(0)
	var next uint64
	var mu sync.Mutex
	var wg sync.WaitGroup
	for w := 0; w < workers; w++ {
		wg.Add(1)
		go func() {
			defer wg.Done()
			for {
				mu.Lock()
				lo := next
				if lo >= n {
					mu.Unlock()
					return
				}
				hi := lo + chunk
				if hi > n {
					hi = n
				}
				next = hi
				mu.Unlock()
				f(lo, hi)
			}
		}()
	}
	wg.Wait()
	return
}
