package rig

import "fmt"

import "sort"

// Mix is the pure function that defines "arbitrary memory contents": byte = Mix(seed, addr).
func Mix(seed, a uint32) byte {
	x := a*2654435761 ^ seed
	x ^= x >> 15
	x *= 2246822519
	x ^= x >> 13
	x *= 3266489917
	x ^= x >> 16
	return byte(x)
}

// Access is one bus access seen by a Mem.
type Access struct {
	Addr  uint32
	Val   byte
	Write bool
}

// Mem is a sparse 16 MiB memory: Mix(seed, addr) overlaid by explicit writes.  It implements
// memory.Memory and the wdc.Mem interface, records out-of-range addresses and optionally logs.
type Mem struct {
	Seed   uint32
	Over   map[uint32]byte
	Log    []Access
	DoLog  bool
	OOR    int    // accesses with address >= 1<<24
	OORAdr uint32 // first such address
	// accesses that the bus delivered to the handler of another 16-byte segment (see cpu.go: the flat memory is attached
	// with 16 handlers chosen by the digits of the segment number)
	Mis       int
	MisAdr    uint32
	MisParity uint32
}

// Misrouted records an access at a that arrived at the handler of another class of segments.
func (m *Mem) Misrouted(a, parity uint32) {
	if m.Mis == 0 {
		m.MisAdr, m.MisParity = a, parity
	}
	m.Mis++
}

// BusFault describes the first access outside the 24-bit space or delivered to the wrong window ("" if none).
func (m *Mem) BusFault() string {
	switch {
	case m.OOR > 0:
		return fmt.Sprintf("issued a bus access at $%X, outside the 24-bit address space", m.OORAdr)
	case m.Mis > 0:
		return fmt.Sprintf("made an access to $%06X through the bus handler of another 16-byte segment (the access was routed by another address than the one it carries)", m.MisAdr)
	}
	return ""
}

func NewMem(seed uint32) *Mem { return &Mem{Seed: seed, Over: map[uint32]byte{}} }

func (m *Mem) Reset(seed uint32) {
	m.Seed = seed
	m.Over = map[uint32]byte{}
	m.Log = m.Log[:0]
	m.OOR = 0
	m.OORAdr = 0
	m.Mis = 0
}

func (m *Mem) note(a uint32) {
	if a >= 1<<24 {
		if m.OOR == 0 {
			m.OORAdr = a
		}
		m.OOR++
	}
}

// Peek reads without logging.
func (m *Mem) Peek(a uint32) byte {
	if v, ok := m.Over[a]; ok {
		return v
	}
	return Mix(m.Seed, a)
}

// Poke writes without logging (generator overlay).
func (m *Mem) Poke(a uint32, v byte) { m.Over[a] = v }

func (m *Mem) Read(a uint32) byte {
	m.note(a)
	v := m.Peek(a)
	if m.DoLog {
		m.Log = append(m.Log, Access{a, v, false})
	}
	return v
}

func (m *Mem) Write(a uint32, v byte) {
	m.note(a)
	m.Over[a] = v
	if m.DoLog {
		m.Log = append(m.Log, Access{a, v, true})
	}
}

func (m *Mem) R(a uint32) byte    { return m.Read(a & 0xffffff) }
func (m *Mem) W(a uint32, v byte) { m.Write(a&0xffffff, v) }

func (m *Mem) Shutdown()          {}
func (m *Mem) Size() uint32       { return 1 << 24 }
func (m *Mem) Clear()             {}
func (m *Mem) Dump(uint32) []byte { return nil }

// Clone copies contents (not the log).
func (m *Mem) Clone() *Mem {
	c := &Mem{Seed: m.Seed, Over: make(map[uint32]byte, len(m.Over)), DoLog: m.DoLog}
	for k, v := range m.Over {
		c.Over[k] = v
	}
	return c
}

// DiffMem returns the addresses (sorted, at most max) at which two memories with the same seed differ.
func DiffMem(a, b *Mem, max int) []uint32 {
	var d []uint32
	seen := map[uint32]bool{}
	chk := func(k uint32) {
		if seen[k] {
			return
		}
		seen[k] = true
		if a.Peek(k) != b.Peek(k) {
			d = append(d, k)
		}
	}
	for k := range a.Over {
		chk(k)
	}
	for k := range b.Over {
		chk(k)
	}
	sort.Slice(d, func(i, j int) bool { return d[i] < d[j] })
	if len(d) > max {
		d = d[:max]
	}
	return d
}
