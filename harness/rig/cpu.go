package rig

import (
	"fmt"
	"io"
	"strings"

	"github.com/alttpo/snes/emulator/bus"
	"github.com/alttpo/snes/emulator/cpu65c816"
	"github.com/alttpo/snes/emulator/cpualt"

	"verif/harness/wdc"
)

// Raw is the complete exported register file shared by both interpreters.
type Raw struct {
	RA, RX, RY             uint16
	RAh, RAl, RXl, RYl     byte
	PC, SP, RD             uint16
	RDBR, RK               byte
	N, V, M, X, D, I, Z, C byte
	B, E                   byte
	Interrupt              byte
	Stopped                bool
	WDM                    byte
	PPC                    uint16
	PRK                    byte
	Cycles                 byte
	AllCycles              uint64
}

// memProxy forwards to the Mem currently selected for a CPU, so the 2^20-entry routing tables
// are built once per process.
type memProxy struct{ M *Mem }

func (p *memProxy) Read(a uint32) byte     { return p.M.Read(a) }
func (p *memProxy) Write(a uint32, v byte) { p.M.Write(a, v) }
func (p *memProxy) Shutdown()              {}
func (p *memProxy) Size() uint32           { return 1 << 24 }
func (p *memProxy) Clear()                 {}
func (p *memProxy) Dump(uint32) []byte     { return nil }

// The flat 16 MiB memory is attached with 16 handlers; the handler of a 16-byte segment is chosen by the XOR of the five
// hex digits of the segment number, so neighbouring segments, and segments whose numbers differ in one digit (a dropped
// or changed bank nibble, a carry that was lost), always have different handlers.  An access that the bus routes with
// another address than the one it carries arrives at a handler of another class, which records it.
func segClass(a uint32) uint32 {
	s := a >> 4
	return (s ^ s>>4 ^ s>>8 ^ s>>12 ^ s>>16) & 15
}

// memWindow is the handler of the segments of one class for bus.Bus.
type memWindow struct {
	*memProxy
	class uint32
}

func (w memWindow) Read(a uint32) byte {
	if segClass(a) != w.class {
		w.M.Misrouted(a, w.class)
	}
	return w.M.Read(a)
}
func (w memWindow) Write(a uint32, v byte) {
	if segClass(a) != w.class {
		w.M.Misrouted(a, w.class)
	}
	w.M.Write(a, v)
}

func attachFlat(b *bus.Bus, p *memProxy) {
	var hs [16]memWindow
	for c := range hs {
		hs[c] = memWindow{p, uint32(c)}
	}
	for k := uint32(0); k < 1<<20; k++ {
		if err := b.Attach(hs[segClass(k<<4)], "flat", k<<4, k<<4|15); err != nil {
			panic(err)
		}
	}
}

// CPU abstracts over the two interpreters.
type CPU interface {
	Name() string
	SetMem(m *Mem)
	Mem() *Mem
	Load(a wdc.Arch)
	LoadRaw(r Raw)
	// SoftLoadRaw sets the exported register fields only, the way a debugger would: whatever else the object
	// remembers stays
	SoftLoadRaw(r Raw)
	Raw() Raw
	Arch() wdc.Arch
	// Step executes one Step(); a panic is caught and returned.
	Step() (cycles int, stopped bool, panicked interface{})
	Reset() interface{}
	TriggerIRQ()
	SetInterrupt(v byte)
	Disasm() string
	// Inspect makes read-only calls (Flags, disassembly) and returns a complaint if Flags() disagrees with the flag fields.
	Inspect() string
	// SwapBus moves the CPU to another bus with the same memory behind it, where the implementation has a bus pointer
	// that callers may assign (false otherwise).
	SwapBus() bool
	// Fork returns a CPU created with InitFrom from this one (same state, same memory object);
	// the fork of a fork is the original object again, re-initialised from the fork.
	Fork() CPU
}

func b2(b bool) byte {
	if b {
		return 1
	}
	return 0
}

// archToRaw builds a coherent register file: both copies agree, index high bytes are zero when
// X=1, and in emulation mode SP=01xx with M=X=1.
func ArchToRaw(a wdc.Arch) Raw {
	var r Raw
	r.PC, r.SP, r.RD, r.RDBR, r.RK = a.PC, a.S, a.D, a.DBR, a.K
	r.RA, r.RAl, r.RAh = a.A, byte(a.A), byte(a.A>>8)
	p := a.P
	if a.E {
		p |= wdc.FM | wdc.FX
		r.SP = 0x0100 | r.SP&0xff
	}
	x, y := a.X, a.Y
	if p&wdc.FX != 0 {
		x &= 0xff
		y &= 0xff
	}
	r.RX, r.RXl, r.RY, r.RYl = x, byte(x), y, byte(y)
	r.C, r.Z, r.I, r.D, r.X, r.M, r.V, r.N = p&1, p>>1&1, p>>2&1, p>>3&1, p>>4&1, p>>5&1, p>>6&1, p>>7&1
	r.E = b2(a.E)
	r.Stopped = a.Stopped
	r.WDM = a.WDM
	return r
}

// RawToArch is the programmer-visible abstraction: each register is read through the copy that
// the M / X flag makes authoritative.
func RawToArch(r Raw) wdc.Arch {
	var s wdc.Arch
	s.PC, s.S, s.D, s.DBR, s.K = r.PC, r.SP, r.RD, r.RDBR, r.RK
	if r.M == 1 {
		s.A = uint16(r.RAh)<<8 | uint16(r.RAl)
	} else {
		s.A = r.RA
	}
	if r.X == 1 {
		s.X, s.Y = uint16(r.RXl), uint16(r.RYl)
	} else {
		s.X, s.Y = r.RX, r.RY
	}
	s.P = r.C | r.Z<<1 | r.I<<2 | r.D<<3 | r.X<<4 | r.M<<5 | r.V<<6 | r.N<<7
	s.E = r.E == 1
	s.Stopped = r.Stopped
	s.WDM = r.WDM
	return s
}

// ---------------------------------------------------------------- primary

type Primary struct {
	C     *cpu65c816.CPU
	Bus   *bus.Bus
	proxy *memProxy
	fork  *Primary
	// the bus this CPU is not on at the moment (SwapBus), and the proxy behind it
	spareBus   *bus.Bus
	spareProxy *memProxy
}

// SwapBus puts the CPU on another bus by assigning the exported CPU.Bus field; the same memory is behind the new
// bus, and the bus that was replaced from now on answers from a different memory (whoever still talks to it reads other
// bytes and loses its writes).  LoadRaw keeps the CPU on the bus it is on.
func (p *Primary) SwapBus() bool {
	if p.spareBus == nil {
		p.spareBus, _ = bus.New()
		p.spareProxy = &memProxy{M: NewMem(0)}
		attachFlat(p.spareBus, p.spareProxy)
	}
	m := p.proxy.M
	p.Bus, p.spareBus = p.spareBus, p.Bus
	p.proxy, p.spareProxy = p.spareProxy, p.proxy
	p.proxy.M = m
	p.spareProxy.M = NewMem(0x0BADB055)
	p.C.Bus = p.Bus
	return true
}

func (p *Primary) Fork() CPU {
	if p.fork == nil {
		p.fork = NewPrimary()
		p.fork.fork = p
	}
	f := p.fork
	f.C.InitFrom(p.C, f.Bus)
	f.proxy.M = p.proxy.M
	return f
}

func NewPrimary() *Primary {
	b, _ := bus.New()
	p := &memProxy{M: NewMem(0)}
	attachFlat(b, p)
	c, _ := cpu65c816.New(b)
	return &Primary{C: c, Bus: b, proxy: p}
}

func (p *Primary) Name() string    { return "cpu65c816" }
func (p *Primary) SetMem(m *Mem)   { p.proxy.M = m }
func (p *Primary) Mem() *Mem       { return p.proxy.M }
func (p *Primary) Load(a wdc.Arch) { p.LoadRaw(ArchToRaw(a)) }
func (p *Primary) LoadRaw(r Raw) {
	c := p.C
	onwdm, onpc := c.OnWDM, c.OnPC
	*c = cpu65c816.CPU{Bus: p.Bus}
	c.OnWDM, c.OnPC = onwdm, onpc
	c.RA, c.RX, c.RY = r.RA, r.RX, r.RY
	c.RAh, c.RAl, c.RXl, c.RYl = r.RAh, r.RAl, r.RXl, r.RYl
	c.PC, c.SP, c.RD, c.RDBR, c.RK = r.PC, r.SP, r.RD, r.RDBR, r.RK
	c.N, c.V, c.M, c.X, c.D, c.I, c.Z, c.C = r.N, r.V, r.M, r.X, r.D, r.I, r.Z, r.C
	c.B, c.E, c.Interrupt, c.Stopped, c.WDM = r.B, r.E, r.Interrupt, r.Stopped, r.WDM
	c.PPC, c.PRK, c.Cycles, c.AllCycles = r.PPC, r.PRK, r.Cycles, r.AllCycles
}
func (p *Primary) SoftLoadRaw(r Raw) {
	c := p.C
	c.RA, c.RX, c.RY = r.RA, r.RX, r.RY
	c.RAh, c.RAl, c.RXl, c.RYl = r.RAh, r.RAl, r.RXl, r.RYl
	c.PC, c.SP, c.RD, c.RDBR, c.RK = r.PC, r.SP, r.RD, r.RDBR, r.RK
	c.N, c.V, c.M, c.X, c.D, c.I, c.Z, c.C = r.N, r.V, r.M, r.X, r.D, r.I, r.Z, r.C
	c.B, c.E, c.Interrupt, c.Stopped, c.WDM = r.B, r.E, r.Interrupt, r.Stopped, r.WDM
	c.PPC, c.PRK, c.Cycles, c.AllCycles = r.PPC, r.PRK, r.Cycles, r.AllCycles
}
func (p *Primary) Raw() Raw {
	c := p.C
	return Raw{RA: c.RA, RX: c.RX, RY: c.RY, RAh: c.RAh, RAl: c.RAl, RXl: c.RXl, RYl: c.RYl,
		PC: c.PC, SP: c.SP, RD: c.RD, RDBR: c.RDBR, RK: c.RK,
		N: c.N, V: c.V, M: c.M, X: c.X, D: c.D, I: c.I, Z: c.Z, C: c.C, B: c.B, E: c.E,
		Interrupt: c.Interrupt, Stopped: c.Stopped, WDM: c.WDM, PPC: c.PPC, PRK: c.PRK, Cycles: c.Cycles, AllCycles: c.AllCycles}
}
func (p *Primary) Arch() wdc.Arch { return RawToArch(p.Raw()) }
func (p *Primary) Step() (cycles int, stopped bool, panicked interface{}) {
	defer func() {
		if r := recover(); r != nil {
			panicked = r
		}
	}()
	cycles, stopped = p.C.Step()
	return
}
func (p *Primary) Reset() (panicked interface{}) {
	defer func() {
		if r := recover(); r != nil {
			panicked = r
		}
	}()
	p.C.Reset()
	return nil
}
func (p *Primary) TriggerIRQ()         { p.C.TriggerIRQ() }
func (p *Primary) SetInterrupt(v byte) { p.C.Interrupt = v }
func (p *Primary) Disasm() string {
	var s string
	func() {
		defer func() { recover() }()
		s = string(p.C.DisassembleCurrentPC(nil))
	}()
	return s
}

// ---------------------------------------------------------------- alternative

type Alt struct {
	C     *cpualt.CPU
	proxy *memProxy
	fork  *Alt
}

// Fork: InitFrom copies the bus tables too, so the fork reads and writes through the original's
// proxy; the adapters share it.
func (p *Alt) Fork() CPU {
	if p.fork == nil {
		p.fork = NewAlt()
		p.fork.fork = p
	}
	f := p.fork
	f.C.InitFrom(p.C)
	f.proxy = p.proxy
	return f
}

func NewAlt() *Alt {
	c := &cpualt.CPU{}
	c.Init()
	p := &memProxy{M: NewMem(0)}
	a := &Alt{C: c, proxy: p}
	a.Rebind()
	return a
}

// Rebind attaches the CPU's bus to this adapter's own memory again (after InitFrom copied
// another CPU's bus tables).
func (p *Alt) Rebind() {
	px := p.proxy
	var rds [16]func(a uint32) uint8
	var wrs [16]func(a uint32, v uint8)
	for c := uint32(0); c < 16; c++ {
		c := c
		rds[c] = func(a uint32) uint8 {
			if segClass(a) != c {
				px.M.Misrouted(a, c)
			}
			return px.M.Read(a)
		}
		wrs[c] = func(a uint32, v uint8) {
			if segClass(a) != c {
				px.M.Misrouted(a, c)
			}
			px.M.Write(a, v)
		}
	}
	for k := uint32(0); k < 1<<20; k++ {
		c := segClass(k << 4)
		p.C.Bus.Read[k] = rds[c]
		p.C.Bus.Write[k] = wrs[c]
	}
}

func (p *Alt) Name() string    { return "cpualt" }
func (p *Alt) SetMem(m *Mem)   { p.proxy.M = m }
func (p *Alt) Mem() *Mem       { return p.proxy.M }
func (p *Alt) Load(a wdc.Arch) { p.LoadRaw(ArchToRaw(a)) }
func (p *Alt) LoadRaw(r Raw) {
	c := p.C
	c.StepInfo = cpualt.StepInfo{}
	c.RA, c.RX, c.RY = r.RA, r.RX, r.RY
	c.RAh, c.RAl, c.RXl, c.RYl = r.RAh, r.RAl, r.RXl, r.RYl
	c.PC, c.SP, c.RD, c.RDBR, c.RK = r.PC, r.SP, r.RD, r.RDBR, r.RK
	c.N, c.V, c.M, c.X, c.D, c.I, c.Z, c.C = r.N, r.V, r.M, r.X, r.D, r.I, r.Z, r.C
	c.B, c.E, c.Interrupt, c.Stopped, c.WDM = r.B, r.E, r.Interrupt, r.Stopped, r.WDM
	c.PPC, c.PRK, c.Cycles, c.AllCycles = r.PPC, r.PRK, r.Cycles, r.AllCycles
	c.Bus.M = 0
}
func (p *Alt) SoftLoadRaw(r Raw) { p.LoadRaw(r) }
func (p *Alt) SwapBus() bool     { return false } // (cpualt's bus is part of the CPU value)
func (p *Alt) Raw() Raw {
	c := p.C
	return Raw{RA: c.RA, RX: c.RX, RY: c.RY, RAh: c.RAh, RAl: c.RAl, RXl: c.RXl, RYl: c.RYl,
		PC: c.PC, SP: c.SP, RD: c.RD, RDBR: c.RDBR, RK: c.RK,
		N: c.N, V: c.V, M: c.M, X: c.X, D: c.D, I: c.I, Z: c.Z, C: c.C, B: c.B, E: c.E,
		Interrupt: c.Interrupt, Stopped: c.Stopped, WDM: c.WDM, PPC: c.PPC, PRK: c.PRK, Cycles: c.Cycles, AllCycles: c.AllCycles}
}
func (p *Alt) Arch() wdc.Arch { return RawToArch(p.Raw()) }
func (p *Alt) Step() (cycles int, stopped bool, panicked interface{}) {
	defer func() {
		if r := recover(); r != nil {
			panicked = r
		}
	}()
	cycles, stopped = p.C.Step()
	return
}
func (p *Alt) Reset() (panicked interface{}) {
	defer func() {
		if r := recover(); r != nil {
			panicked = r
		}
	}()
	p.C.Reset()
	return nil
}
func (p *Alt) TriggerIRQ()         { p.C.TriggerIRQ() }
func (p *Alt) SetInterrupt(v byte) { p.C.Interrupt = v }
func (p *Alt) Disasm() string {
	var b strings.Builder
	func() {
		defer func() { recover() }()
		p.C.DisassembleCurrentPC(&b)
		p.C.DisassemblePreviousPC(io.Discard)
	}()
	return b.String()
}

// Inspect makes the calls a debugger or a log statement makes between two steps - packed flags, a disassembly of
// what comes next (and, where offered, of what was just executed) - and says whether the packed flags agree with the
// exported flag fields; none of it may change what the CPU does next.
func (p *Primary) Inspect() string {
	c := p.C
	want := c.N<<7 | c.V<<6 | c.M<<5 | c.X<<4 | c.D<<3 | c.I<<2 | c.Z<<1 | c.C
	got := c.Flags()
	_ = p.Disasm()
	if got != want {
		return fmt.Sprintf("Flags() = %02x, the flag fields say %02x", got, want)
	}
	return ""
}
func (p *Alt) Inspect() string {
	c := p.C
	want := c.N<<7 | c.V<<6 | c.M<<5 | c.X<<4 | c.D<<3 | c.I<<2 | c.Z<<1 | c.C
	got := c.Flags()
	_ = p.Disasm()
	if got != want {
		return fmt.Sprintf("Flags() = %02x, the flag fields say %02x", got, want)
	}
	return ""
}

// DiffArch lists the architectural observables in which two states differ.
func DiffArch(a, b wdc.Arch) []string {
	var d []string
	add := func(c bool, n string) {
		if c {
			d = append(d, n)
		}
	}
	add(a.A != b.A, fmt.Sprintf("A(%04x!=%04x)", a.A, b.A))
	add(a.X != b.X, fmt.Sprintf("X(%04x!=%04x)", a.X, b.X))
	add(a.Y != b.Y, fmt.Sprintf("Y(%04x!=%04x)", a.Y, b.Y))
	add(a.S != b.S, fmt.Sprintf("S(%04x!=%04x)", a.S, b.S))
	add(a.D != b.D, fmt.Sprintf("D(%04x!=%04x)", a.D, b.D))
	add(a.PC != b.PC, fmt.Sprintf("PC(%04x!=%04x)", a.PC, b.PC))
	add(a.DBR != b.DBR, fmt.Sprintf("DBR(%02x!=%02x)", a.DBR, b.DBR))
	add(a.K != b.K, fmt.Sprintf("K(%02x!=%02x)", a.K, b.K))
	if a.P != b.P {
		names := "CZIDXMVN"
		for i := 0; i < 8; i++ {
			if (a.P^b.P)>>uint(i)&1 != 0 {
				d = append(d, fmt.Sprintf("flag%c(%d!=%d)", names[i], a.P>>uint(i)&1, b.P>>uint(i)&1))
			}
		}
	}
	add(a.E != b.E, "E")
	add(a.Stopped != b.Stopped, "Stopped")
	add(a.WDM != b.WDM, "WDM")
	return d
}

// NewPrimaryOn wraps a CPU that lives inside another object (emulator.System): the given bus is
// attached to a flat proxy memory and the CPU is initialised on it.
func NewPrimaryOn(c *cpu65c816.CPU, b *bus.Bus) *Primary {
	p := &memProxy{M: NewMem(0)}
	attachFlat(b, p)
	c.Init(b)
	return &Primary{C: c, Bus: b, proxy: p}
}

// WrapPrimary wraps a CPU that is already wired to its bus (emulator.System after CreateEmulator):
// no memory is attached; SetMem/Mem must not be used.
func WrapPrimary(c *cpu65c816.CPU, b *bus.Bus) *Primary {
	return &Primary{C: c, Bus: b, proxy: &memProxy{M: NewMem(0)}}
}
