package rig

import (
	"pgregory.net/rapid"

	"verif/harness/wdc"
)

// Patch is one generator-placed memory byte.  Patches only ever touch addresses that no
// earlier step accessed, so a run equals a run from the initial image Mix(seed) + all patches.
type Patch struct {
	Addr uint32 `json:"a"`
	Val  byte   `json:"v"`
}

// Drawer abstracts the random source (rapid in practice).
type Drawer interface {
	Intn(label string, n int) int // uniform in [0,n)
	U32(label string) uint32
}

type RapidDrawer struct{ T *rapid.T }

func (d RapidDrawer) Intn(label string, n int) int { return rapid.IntRange(0, n-1).Draw(d.T, label) }
func (d RapidDrawer) U32(label string) uint32      { return rapid.Uint32().Draw(d.T, label) }

var edge16 = []uint16{0, 1, 2, 0xff, 0x100, 0x1ff, 0x7fff, 0x8000, 0xfffd, 0xfffe, 0xffff, 0xfffc, 0xfeff, 0xff00, 0xff01, 0x00fe}
var edgeBank = []byte{0x00, 0x01, 0x7e, 0x7f, 0x80, 0xfe, 0xff}
var edge8 = []byte{0, 1, 0x7f, 0x80, 0xff, 0xfe, 0x0f, 0x10, 0x99, 0x09, 0x90}

func Draw16(d Drawer, label string) uint16 {
	if d.Intn(label+"-edge", 3) == 0 {
		return edge16[d.Intn(label+"-e", len(edge16))]
	}
	return uint16(d.U32(label))
}
func DrawBank(d Drawer, label string) byte {
	if d.Intn(label+"-edge", 2) == 0 {
		return edgeBank[d.Intn(label+"-e", len(edgeBank))]
	}
	return byte(d.U32(label))
}
func Draw8(d Drawer, label string) byte {
	if d.Intn(label+"-edge", 3) == 0 {
		return edge8[d.Intn(label+"-e", len(edge8))]
	}
	return byte(d.U32(label))
}
func toBCD16(n int) uint16 {
	return uint16(n%10) | uint16(n/10%10)<<4 | uint16(n/100%10)<<8 | uint16(n/1000%10)<<12
}

// GenArch draws a native-mode architectural state (edge-biased); firstOp lets the state suit the
// first instruction (small block-move counts).
func GenArch(d Drawer, firstOp byte, top bool) wdc.Arch {
	var s wdc.Arch
	s.PC, s.D = Draw16(d, "pc"), Draw16(d, "d")
	if d.Intn("pc-end", 4) == 0 {
		s.PC = 0xffff - uint16(d.Intn("pc-k", 4))
	}
	if d.Intn("d-aligned", 2) == 0 {
		s.D &= 0xff00
	}
	switch d.Intn("s-kind", 4) {
	case 0:
		s.S = []uint16{0x0000, 0x0001, 0x01ff, 0x0100, 0xffff, 0xfffe, 0x00ff, 0x0002}[d.Intn("s-e", 8)]
	default:
		s.S = Draw16(d, "s")
	}
	if (firstOp == 0x00 || firstOp == 0x02) && d.Intn("s-on-vector", 3) == 0 {
		s.S = 0xffe4 + uint16(d.Intn("s-vec", 10)) // the interrupt entry pushes onto its own vector
	}
	s.DBR, s.K = DrawBank(d, "dbr"), DrawBank(d, "k")
	if top && d.Intn("dbr-ff", 2) == 0 {
		s.DBR = 0xff
	}
	s.P = byte(d.U32("p"))
	if d.Intn("dflag", 4) != 0 {
		s.P &^= wdc.FD
	}
	s.A, s.X, s.Y = Draw16(d, "a"), Draw16(d, "x"), Draw16(d, "y")
	if s.P&wdc.FD != 0 && d.Intn("a-bcd", 4) != 0 {
		s.A = toBCD16(d.Intn("a-bcdv", 10000))
	}
	if (firstOp == 0x54 || firstOp == 0x44) && d.Intn("mv-small", 4) != 0 {
		s.A = uint16(d.Intn("mv-count", 4))
	}
	if s.P&wdc.FX != 0 {
		s.X &= 0xff
		s.Y &= 0xff
	}
	return s
}

// Synth places instructions just in time.
type Synth struct {
	D       Drawer
	Pinned  map[uint32]bool
	Touched map[uint32]bool
	Mem     *Mem // reference memory (current contents)
	Patches []Patch
	Top     bool // bias effective addresses to the top of the 24-bit space (C08)
	NoWidth bool
	LastOp  byte
	LastCls string
	placedN int
	first   *byte
}

// ForceFirst fixes the opcode of the first synthesised instruction.
func (s *Synth) ForceFirst(op byte) { s.first = &op }

func NewSynth(d Drawer, mem *Mem) *Synth {
	return &Synth{D: d, Pinned: map[uint32]bool{}, Touched: map[uint32]bool{}, Mem: mem}
}

func (s *Synth) free(a uint32) bool { a &= 0xffffff; return !s.Pinned[a] && !s.Touched[a] }

// put places a byte if the address was never accessed or placed before.
func (s *Synth) put(a uint32, v byte) bool {
	a &= 0xffffff
	if !s.free(a) {
		return false
	}
	s.Pinned[a] = true
	s.Patches = append(s.Patches, Patch{a, v})
	s.Mem.Poke(a, v)
	return true
}

// NoteAccess marks addresses the execution touched (call with the reference memory's log).
func (s *Synth) NoteAccess(log []Access) {
	for _, ac := range log {
		s.Touched[ac.Addr&0xffffff] = true
	}
}

var widthOps = []byte{0xc2, 0xe2, 0x28, 0x40, 0xfb, 0xc2, 0xe2, 0x08, 0x18, 0x38}

func (s *Synth) drawOpcode(st wdc.Arch) byte {
	if s.placedN == 0 {
		if s.first != nil {
			return *s.first
		}
		return byte(s.D.U32("op0"))
	}
	if !s.NoWidth && s.D.Intn("op-bias", 3) == 0 {
		if st.A <= 8 && s.D.Intn("op-mv", 3) == 0 {
			return []byte{0x54, 0x44}[s.D.Intn("op-mvk", 2)]
		}
		return widthOps[s.D.Intn("op-w", len(widthOps))]
	}
	op := byte(s.D.U32("op"))
	if (op == 0x54 || op == 0x44) && st.A > 8 { // a long block move would eat every remaining step
		op = 0xea
	}
	return op
}

// off16 draws a 17-bit "sum" for 16-bit address arithmetic: values >= 0x10000 ask for a carry out of the bank.
func (s *Synth) sum16() (uint32, string) {
	switch s.D.Intn("t16", 8) {
	case 0:
		return 0xffff - uint32(s.D.Intn("k", 3)), "bank-end"
	case 1:
		return 0x10000 + uint32(s.D.Intn("k", 3)), "bank-carry"
	case 2:
		return uint32(s.D.Intn("pg", 256))<<8 | (0xff - uint32(s.D.Intn("k", 2))), "page-end"
	case 3:
		return uint32(s.D.Intn("k", 2)), "bank-start"
	default:
		return s.D.U32("t") & 0xffff, "interior"
	}
}

// sum24 draws a 25-bit "sum" for 24-bit address arithmetic: values >= 1<<24 ask for overflow of the address space.
func (s *Synth) sum24() (uint32, string) {
	n := 8
	if s.Top {
		n = 4
	}
	switch s.D.Intn("t24", n) {
	case 0:
		return 0xffffff - uint32(s.D.Intn("k", 3)), "top"
	case 1:
		return 0x1000000 + uint32(s.D.Intn("k", 3)), "overflow24"
	case 2:
		return uint32(DrawBank(s.D, "tb"))<<16 | (0xffff - uint32(s.D.Intn("k", 3))), "bank-end"
	case 3:
		return (uint32(DrawBank(s.D, "tb"))+1)<<16 | uint32(s.D.Intn("k", 3)), "bank-carry"
	case 4:
		return uint32(s.D.Intn("k", 3)), "bottom"
	default:
		return s.D.U32("t") & 0xffffff, "interior"
	}
}

func (s *Synth) idx(st wdc.Arch, y bool) uint32 {
	if y {
		return uint32(st.Y)
	}
	return uint32(st.X)
}

// Instr synthesises the next instruction at K:PC if that byte was never accessed or placed.
// It returns false when execution continues over bytes that are already determined.
func (s *Synth) Instr(st wdc.Arch) bool {
	pc := uint32(st.K)<<16 | uint32(st.PC)
	if !s.free(pc) {
		s.LastOp = s.Mem.Peek(pc)
		s.LastCls = "determined"
		return false
	}
	op := s.drawOpcode(st)
	s.placedN++
	s.put(pc, op)
	s.LastOp = op
	k := uint32(st.K) << 16
	at := func(i uint16) uint32 { return k | uint32(st.PC+i) }
	oi := wdc.Optab[op]
	m8, x8 := st.P&wdc.FM != 0, st.P&wdc.FX != 0
	cls := "none"
	var ea uint32
	hasEA := false
	bank0 := false
	put16 := func(i uint16, v uint16) { s.put(at(i), byte(v)); s.put(at(i+1), byte(v>>8)) }
	// pointer bytes in bank 0 with 16-bit wrap
	ptr0 := func(loc uint16, v uint32, n int) {
		for i := 0; i < n; i++ {
			s.put(uint32(loc+uint16(i)), byte(v>>(8*uint(i))))
		}
	}
	dbr := uint32(st.DBR) << 16
	switch oi.Md {
	case wdc.MImp, wdc.MAcc:
		// returns: the address pulled from the stack is solved to an edge value in half of the cases (RTS/RTL add one to it:
		// $FFFF wraps inside the bank)
		if (op == 0x60 || op == 0x6B || op == 0x40) && !st.E && s.D.Intn("ret-edge", 2) == 0 {
			skip := uint16(1) // RTS, RTL: S+1 = PCL
			if op == 0x40 {
				skip = 2 // RTI: S+1 = P
			}
			v := []uint16{0xFFFF, 0xFFFE, 0x0000, 0x00FF, 0xFEFF, 0x7FFF}[s.D.Intn("ret-addr", 6)]
			s.put(uint32(st.S+skip), byte(v))
			s.put(uint32(st.S+skip+1), byte(v>>8))
			cls = "return-address-edge"
		}
	case wdc.MImmM, wdc.MImmX, wdc.MImm8, wdc.MImm16:
		v := Draw16(s.D, "imm")
		if st.P&wdc.FD != 0 && (oi.Mn == "adc" || oi.Mn == "sbc") && s.D.Intn("imm-bcd", 4) != 0 {
			v = toBCD16(s.D.Intn("imm-bcdv", 10000))
		}
		if op == 0xc2 || op == 0xe2 {
			v = uint16(s.D.U32("mask")) & 0xff
			if s.D.Intn("mask-mx", 2) == 0 {
				v = uint16([]byte{0x30, 0x20, 0x10, 0x38, 0x31}[s.D.Intn("mask-k", 5)])
			}
		}
		put16(1, v)
	case wdc.MDp, wdc.MDpX, wdc.MDpY:
		t, c := s.sum16()
		cls = c
		base := uint32(st.D)
		if oi.Md == wdc.MDpX {
			base += uint32(st.X)
		} else if oi.Md == wdc.MDpY {
			base += uint32(st.Y)
		}
		off := (t - base) & 0xffff
		if off > 0xff {
			off = s.D.U32("dpoff") & 0xff
			cls = "interior"
		}
		s.put(at(1), byte(off))
		ea, hasEA, bank0 = (base+off)&0xffff, true, true
	case wdc.MSr:
		off := s.D.U32("sroff") & 0xff
		if s.D.Intn("sr-edge", 3) == 0 {
			off = uint32([]byte{0, 1, 0xff, 0xfe}[s.D.Intn("sr-k", 4)])
		}
		s.put(at(1), byte(off))
		ea, hasEA, bank0 = (uint32(st.S)+off)&0xffff, true, true
	case wdc.MDpInd, wdc.MDpIndX, wdc.MDpIndY, wdc.MSrIndY:
		off := uint32(Draw8(s.D, "ioff"))
		s.put(at(1), byte(off))
		loc := st.D + uint16(off)
		if oi.Md == wdc.MDpIndX {
			loc += st.X
		}
		if oi.Md == wdc.MSrIndY {
			loc = st.S + uint16(off)
		}
		t, c := s.sum16()
		cls = c
		var p uint32
		if oi.Md == wdc.MDpIndY || oi.Md == wdc.MSrIndY {
			p = (t - uint32(st.Y)) & 0xffff
			if s.Top && st.DBR == 0xff {
				cls = "top-" + c
			}
		} else {
			p = t & 0xffff
		}
		ptr0(loc, p, 2)
		ea, hasEA = dbr|p, true
		if oi.Md == wdc.MDpIndY || oi.Md == wdc.MSrIndY {
			ea += uint32(st.Y)
		}
	case wdc.MDpIndL, wdc.MDpIndLY:
		off := uint32(Draw8(s.D, "ioff"))
		s.put(at(1), byte(off))
		loc := st.D + uint16(off)
		t, c := s.sum24()
		cls = c
		p := t
		if oi.Md == wdc.MDpIndLY {
			p = t - uint32(st.Y)
		}
		p &= 0xffffff
		ptr0(loc, p, 3)
		ea, hasEA = p, true
		if oi.Md == wdc.MDpIndLY {
			ea += uint32(st.Y)
		}
	case wdc.MAbs:
		if oi.Mn == "jmp" || oi.Mn == "jsr" {
			put16(1, Draw16(s.D, "target"))
			break
		}
		t, c := s.sum16()
		cls = c
		put16(1, uint16(t))
		ea, hasEA = dbr|t&0xffff, true
	case wdc.MAbsX, wdc.MAbsY:
		t, c := s.sum16()
		cls = c
		ix := s.idx(st, oi.Md == wdc.MAbsY)
		a := (t - ix) & 0xffff
		put16(1, uint16(a))
		ea, hasEA = (dbr|a)+ix, true
	case wdc.MLong, wdc.MLongX:
		if oi.Mn == "jmp" || oi.Mn == "jsl" {
			put16(1, Draw16(s.D, "target"))
			s.put(at(3), DrawBank(s.D, "tbank"))
			break
		}
		t, c := s.sum24()
		cls = c
		p := t
		if oi.Md == wdc.MLongX {
			p = t - uint32(st.X)
		}
		p &= 0xffffff
		put16(1, uint16(p))
		s.put(at(3), byte(p>>16))
		ea, hasEA = p, true
		if oi.Md == wdc.MLongX {
			ea += uint32(st.X)
		}
	case wdc.MRel8:
		s.put(at(1), []byte{0, 1, 0x7f, 0x80, 0xfd, 0x02, 0xfe, 0x10, 0xf0, byte(s.D.U32("rel"))}[s.D.Intn("rel-k", 10)])
	case wdc.MRel16:
		put16(1, Draw16(s.D, "rel16"))
	case wdc.MAbsInd, wdc.MAbsIndL:
		a := Draw16(s.D, "ind")
		put16(1, a)
		n := 2
		if oi.Md == wdc.MAbsIndL {
			n = 3
		}
		tgt := uint32(Draw16(s.D, "target")) | uint32(DrawBank(s.D, "tbank"))<<16
		ptr0(a, tgt, n)
		if a >= 0xfffe {
			cls = "pointer-wraps-bank0"
		}
	case wdc.MAbsIndX:
		t, c := s.sum16()
		cls = c
		a := uint16(t - uint32(st.X))
		put16(1, a)
		loc := a + st.X
		tgt := Draw16(s.D, "target")
		s.put(k|uint32(loc), byte(tgt))
		s.put(k|uint32(loc+1), byte(tgt>>8))
		if loc == 0xffff {
			cls = "pointer-wraps-bankK"
		}
	case wdc.MBlock:
		db, sb := DrawBank(s.D, "mv-dst"), DrawBank(s.D, "mv-src")
		s.put(at(1), db)
		s.put(at(2), sb)
	}
	// data at the effective address
	if hasEA {
		w8 := m8
		switch oi.Mn {
		case "cpx", "cpy", "ldx", "ldy", "stx", "sty":
			w8 = x8
		}
		dat := func(i uint32) uint32 {
			if bank0 {
				return (ea + i) & 0xffff
			}
			return (ea + i) & 0xffffff
		}
		switch {
		case st.P&wdc.FD != 0 && (oi.Mn == "adc" || oi.Mn == "sbc") && s.D.Intn("dat-bcd", 4) != 0:
			v := toBCD16(s.D.Intn("dat-bcdv", 10000))
			s.put(dat(0), byte(v))
			if !w8 {
				s.put(dat(1), byte(v>>8))
			}
		case s.D.Intn("dat-edge", 4) == 0:
			s.put(dat(0), Draw8(s.D, "dat0"))
			if !w8 {
				s.put(dat(1), Draw8(s.D, "dat1"))
			}
		}
		if !bank0 && ea < 1<<24 && cls == "overflow24" {
			cls = "bottom" // no index to carry out: the address simply is in bank 0
		}
		if !bank0 && ea >= 1<<24 {
			cls = "overflow24"
		} else if !bank0 && !w8 && ea&0xffffff == 0xffffff {
			cls = "straddle-top"
		} else if !bank0 && !w8 && ea&0xffff == 0xffff && cls == "interior" {
			cls = "bank-end"
		}
	}
	s.LastCls = cls
	return true
}
