// Package rig holds the plumbing shared by all property checks: run environment,
// evidence counters, replay files, known findings, sparse memory and CPU adapters.
package rig

import (
	"encoding/binary"
	"encoding/json"
	"flag"
	"fmt"
	"os"
	"path/filepath"
	"runtime/metrics"
	"sort"
	"strconv"
	"strings"
	"sync"
	"sync/atomic"
	"testing"
	"time"

	"pgregory.net/rapid"
)

func envInt(name string, def int64) int64 {
	if s := os.Getenv(name); s != "" {
		if v, err := strconv.ParseInt(s, 10, 64); err == nil {
			return v
		}
	}
	return def
}

// Tier is "quick" or "thorough".
func Tier() string {
	if os.Getenv("VERIF_TIER") == "thorough" {
		return "thorough"
	}
	return "quick"
}

func Thorough() bool { return Tier() == "thorough" }
func Seed() int64    { return envInt("VERIF_SEED", 1) }
func Shard() int     { return int(envInt("VERIF_SHARD", 0)) }
func Shards() int    { return int(envInt("VERIF_SHARDS", 1)) }
func Dir() string {
	if d := os.Getenv("VERIF_DIR"); d != "" {
		return d
	}
	return "/verif"
}

// Pick returns q in the quick tier and th in the thorough tier.
func Pick(q, th int) int {
	if Thorough() {
		return th
	}
	return q
}

func splitmix(x uint64) uint64 {
	x += 0x9e3779b97f4a7c15
	x = (x ^ (x >> 30)) * 0xbf58476d1ce4e5b9
	x = (x ^ (x >> 27)) * 0x94d049bb133111eb
	return x ^ (x >> 31)
}

// DeriveSeed maps (VERIF_SEED, property, phase, shard) to a non-zero rapid seed.
func DeriveSeed(id string, phase string) uint64 {
	x := splitmix(uint64(Seed()))
	for _, c := range []byte(id + "/" + phase) {
		x = splitmix(x ^ uint64(c))
	}
	x = splitmix(x ^ uint64(Shard())<<32)
	return x | 1
}

// Run is the context of one property check.
type Run struct {
	T  *testing.T
	ID string
	Ev *Evidence

	start      time.Time
	mu         sync.Mutex
	violations []string // replay paths
	lastReplay string
	replaySeq  int
	knownSeen  map[string]bool
	infra      []string
}

var replayers = map[string]func(data []byte) error{}

// RegisterReplay registers the function that re-checks one serialised case of a property
// (pure Go, no rapid).  Case files carry {"kind": "...", "case": {...}}; kind selects the
// sub-check inside a property.
func RegisterReplay(id string, f func(data []byte) error) { replayers[id] = f }

// Replay runs one replay file through the property's check.
func Replay(id, path string) error {
	f, ok := replayers[id]
	if !ok {
		return fmt.Errorf("no replayer for %s", id)
	}
	data, err := os.ReadFile(path)
	if err != nil {
		return err
	}
	// cases saved by the watchdogs carry the way the call failed to return in their kind; the replayers see the plain kind
	var rf ReplayFile
	if json.Unmarshal(data, &rf) == nil {
		for _, suffix := range []string{"-hang", "-memory", "-fatal"} {
			if strings.HasSuffix(rf.Kind, suffix) {
				rf.Kind = strings.TrimSuffix(rf.Kind, suffix)
				if d, err := json.Marshal(rf); err == nil {
					data = d
				}
				break
			}
		}
	}
	// a replayed case may be one that hangs: it is given the same deadline, after which the replay counts as failed
	heapWatch.Do(func() { go watchHeap() })
	done := make(chan error, 1)
	hog := make(chan uint64, 1)
	go func() { done <- Safe(func() error { return f(data) }) }()
	go func() {
		for {
			time.Sleep(50 * time.Millisecond)
			if h := PeakHeap(); h > HeapLimit {
				hog <- h
				return
			}
		}
	}()
	select {
	case err := <-done:
		return err
	case <-time.After(CaseDeadline):
		return &StuckErr{fmt.Sprintf("the call under test did not return within %v", CaseDeadline)}
	case h := <-hog:
		return &StuckErr{fmt.Sprintf("the call under test holds %d MiB of live heap and is still allocating", h>>20)}
	}
}

// RegressLate names the properties whose odd shards replay the committed regression cases after the body instead of before.
var RegressLate = map[string]bool{}

// StuckErr is Replay's verdict on a case whose call is still running (on a goroutine that cannot be stopped).
type StuckErr struct{ What string }

func (e *StuckErr) Error() string { return e.What }

// Safe converts a panic into an error.
func Safe(f func() error) (err error) {
	defer func() {
		if p := recover(); p != nil {
			if strings.HasPrefix(fmt.Sprintf("%T", p), "rapid.") {
				panic(p) // rapid's own control flow (invalid data, stop test) must pass through
			}
			err = fmt.Errorf("panic: %v", p)
		}
	}()
	return f()
}

// Main runs one property check: committed regressions first, then body, then evidence
// and the verdict lines.
func Main(t *testing.T, id string, rule string, body func(r *Run)) {
	r := &Run{T: t, ID: id, Ev: NewEvidence(id, rule), start: time.Now(), knownSeen: map[string]bool{}}
	heapWatch.Do(func() { go watchHeap() })
	defer func() {
		r.Ev.WallS = time.Since(r.start).Seconds()
		r.Ev.Extra["peak_live_heap_mib_max"] = int64(PeakHeap() >> 20)
		r.Ev.Violations = len(r.violations)
		if err := r.Ev.Write(); err != nil {
			t.Errorf("INFRA: writing evidence: %v", err)
		}
		for _, v := range r.violations {
			fmt.Printf("VIOLATION property=%s replay=%s\n", id, v)
		}
		if len(r.violations) > 0 {
			t.Fail()
		}
		for _, m := range r.infra {
			fmt.Printf("INFRA property=%s %s\n", id, m)
			t.Fail()
		}
	}()
	// committed minimal reproductions of defects found earlier
	regress := func() {
		files, _ := filepath.Glob(filepath.Join(Dir(), "regress", id, "*.json"))
		sort.Strings(files)
		for _, f := range files {
			r.Ev.Regress++
			if err := Replay(id, f); err != nil {
				if kf, ok := err.(*KnownErr); ok {
					r.Known(kf.Finding, kf.What)
					continue
				}
				if _, stuck := err.(*StuckErr); stuck {
					// the stuck call keeps running and may share the fixtures of the checks that follow: the run ends here
					fmt.Printf("regression %s fails: %v\n", f, err)
					fmt.Printf("VIOLATION property=%s replay=%s\n", id, f)
					os.Exit(1)
				}
				t.Logf("regression %s fails: %v", f, err)
				r.mu.Lock()
				r.violations = append(r.violations, f)
				r.mu.Unlock()
			}
		}
	}
	if RegressLate[id] && Shard()%2 == 1 {
		// (checks of stateless functions: the odd shards make their own calls first, so that no replayed case decides
		// which function is the first to be called in the process)
		body(r)
		regress()
		return
	}
	regress()
	body(r)
}

// Infra records an infrastructure problem (exit 2, not a verdict).
func (r *Run) Infra(format string, a ...interface{}) {
	r.mu.Lock()
	r.infra = append(r.infra, fmt.Sprintf(format, a...))
	r.mu.Unlock()
}

// replayPath names the replay file of this run.
func (r *Run) replayPath(kind string) string {
	name := fmt.Sprintf("%s-seed%d", Tier(), Seed())
	if Shards() > 1 {
		name += fmt.Sprintf("-shard%d", Shard())
	}
	if kind != "" {
		name += "-" + kind
	}
	return filepath.Join(Dir(), "replays", r.ID, name+".json")
}

// ReplayFile is the on-disk shape of a replay.
type ReplayFile struct {
	Property string          `json:"property"`
	Kind     string          `json:"kind"`
	Error    string          `json:"error,omitempty"`
	Case     json.RawMessage `json:"case"`
}

// SaveReplay serialises a failing case, overwriting the previous failing case of the same
// kind of this run (rapid re-runs the property with the shrunk case last, so the file that
// remains is the minimal one).
func (r *Run) SaveReplay(kind string, c interface{}, cause error) string {
	p := r.replayPath(kind)
	raw, err := json.Marshal(c)
	if err != nil {
		r.Infra("marshal replay: %v", err)
		return p
	}
	rf := ReplayFile{Property: r.ID, Kind: kind, Case: raw}
	if cause != nil {
		rf.Error = cause.Error()
	}
	out, _ := json.MarshalIndent(rf, "", " ")
	_ = os.MkdirAll(filepath.Dir(p), 0o755)
	if err := os.WriteFile(p, out, 0o644); err != nil {
		r.Infra("write replay: %v", err)
	}
	r.mu.Lock()
	r.lastReplay = p
	r.mu.Unlock()
	return p
}

// Violation records a violation found outside rapid (sweeps).
func (r *Run) Violation(kind string, c interface{}, cause error) {
	p := r.SaveReplay(kind, c, cause)
	r.T.Logf("violation (%s): %v", kind, cause)
	r.mu.Lock()
	defer r.mu.Unlock()
	for _, v := range r.violations {
		if v == p {
			return
		}
	}
	r.violations = append(r.violations, p)
}

// AbortViolation is for violations after which the process cannot go on (the code under test is stuck in a loop on some
// goroutine): the replay is saved, the VIOLATION line printed, and the process ends at once - no shrinking, no evidence.
func (r *Run) AbortViolation(kind string, c interface{}, cause error) {
	p := r.SaveReplay(kind, c, cause)
	fmt.Printf("violation (%s): %v\n", kind, cause)
	fmt.Printf("VIOLATION property=%s replay=%s\n", r.ID, p)
	os.Exit(1)
}

// NViolations reports how many violations were recorded so far.
func (r *Run) NViolations() int {
	r.mu.Lock()
	defer r.mu.Unlock()
	return len(r.violations)
}

// Known prints the KNOWN-FINDING line once per finding per run.
func (r *Run) Known(finding, what string) {
	r.mu.Lock()
	defer r.mu.Unlock()
	r.Ev.KnownHits[finding]++
	if !r.knownSeen[finding] {
		r.knownSeen[finding] = true
		fmt.Printf("KNOWN-FINDING: property=%s %s: %s\n", r.ID, finding, what)
	}
}

// Rapid runs prop under rapid with the given number of checks and a seed derived from
// VERIF_SEED.  prop must call r.Fail (below) to report a falsified case.
func (r *Run) Rapid(phase string, checks int, prop func(t *rapid.T)) bool {
	_ = os.RemoveAll("testdata/rapid")
	must := func(err error) {
		if err != nil {
			r.Infra("flag: %v", err)
		}
	}
	must(flag.Set("rapid.checks", strconv.Itoa(checks)))
	must(flag.Set("rapid.seed", strconv.FormatUint(DeriveSeed(r.ID, phase), 10)))
	if flag.Lookup("rapid.shrinktime").Value.String() == "30s" {
		must(flag.Set("rapid.shrinktime", "20s"))
	}
	must(flag.Set("rapid.nofailfile", "true"))
	r.mu.Lock()
	r.lastReplay = ""
	r.mu.Unlock()
	var done int64
	ok := r.T.Run(phase, rapid.MakeCheck(func(t *rapid.T) {
		prop(t)
		atomic.AddInt64(&done, 1)
	}))
	if ok && atomic.LoadInt64(&done) < int64(checks) {
		r.Infra("rapid phase %s ran only %d of %d cases (deadline?)", phase, done, checks)
	}
	if !ok {
		r.mu.Lock()
		lp := r.lastReplay
		if lp != "" {
			dup := false
			for _, v := range r.violations {
				dup = dup || v == lp
			}
			if !dup {
				r.violations = append(r.violations, lp)
			}
		} else {
			r.infra = append(r.infra, "rapid phase "+phase+" failed without a falsified case (generator or harness problem)")
		}
		r.mu.Unlock()
	}
	return ok
}

// Fail saves the replay of a falsified case and fails the rapid run.
func (r *Run) Fail(t *rapid.T, kind string, c interface{}, err error) {
	r.SaveReplay(kind, c, err)
	t.Fatalf("%s: %v", kind, err)
}

// CaseDeadline bounds one case: a call into the code under test that has not come back by then never will (cases take
// microseconds to milliseconds; the slowest sweeps a few seconds).
const CaseDeadline = 120 * time.Second

// Watched runs f like Safe, with a deadman timer: if f has not returned within CaseDeadline the code under test hangs,
// which no property allows ("returns ..."); the shard ends at once with that violation (see AbortViolation).
func (r *Run) Watched(kind string, c interface{}, f func() error) error {
	defer r.Deadman(kind, c)()
	return Safe(f)
}

// Deadman arms the timer for a case that is run by the caller itself (c may be a pointer to a case that is still
// being completed); the returned function disarms it.
func (r *Run) Deadman(kind string, c interface{}) (disarm func()) {
	fl := &flight{r: r, kind: kind, c: c}
	prev := inFlight.Swap(fl)
	if journalOn {
		r.journal(kind, c)
	}
	timer := time.AfterFunc(CaseDeadline, func() {
		r.AbortViolation(kind+"-hang", c, fmt.Errorf("the call under test did not return within %v", CaseDeadline))
	})
	return func() { timer.Stop(); inFlight.Store(prev) }
}

// flight is the case whose check is running right now (cases run one at a time; the workloads of C18 run inside one).
type flight struct {
	r    *Run
	kind string
	c    interface{}
}

var inFlight atomic.Pointer[flight]

// HeapLimit bounds the live heap while a case is in flight.  The live heap of every check on the clean tree stays
// far below it (under 0.7 GiB; each run records its peak in its evidence as peak_live_heap_mib_max); a call under test that allocates without end
// (a loop that appends for ever) is a call that does not return, and is reported as such before the machine suffers.
const HeapLimit = 6 << 30

var peakHeap atomic.Uint64

// PeakHeap is the largest live heap the watchdog saw in this process.
func PeakHeap() uint64 { return peakHeap.Load() }

func watchHeap() {
	sample := []metrics.Sample{{Name: "/memory/classes/heap/objects:bytes"}}
	for {
		time.Sleep(50 * time.Millisecond)
		metrics.Read(sample)
		if sample[0].Value.Kind() != metrics.KindUint64 {
			return
		}
		h := sample[0].Value.Uint64()
		if h > peakHeap.Load() {
			peakHeap.Store(h)
		}
		if h > HeapLimit {
			if fl := inFlight.Load(); fl != nil {
				fl.r.AbortViolation(fl.kind+"-memory", fl.c, fmt.Errorf("the call under test holds %d MiB of live heap and is still allocating", h>>20))
			}
		}
	}
}

var heapWatch sync.Once

// journalOn makes every case leave its replay file behind before it runs: the driver re-runs a shard in this mode
// after the process died of an error that Go cannot recover from (stack overflow, allocation failure), so that the
// last file written is the case that killed it.  Runs are a pure function of tier, seed and shard, so the re-run takes the same path.
var journalOn = os.Getenv("VERIF_JOURNAL") == "1"

func (r *Run) journal(kind string, c interface{}) {
	raw, err := json.Marshal(c)
	if err != nil {
		return
	}
	rf := ReplayFile{Property: r.ID, Kind: kind + "-fatal", Case: raw, Error: "the process died while this case was running"}
	out, _ := json.Marshal(rf)
	p := r.replayPath("fatal")
	_ = os.MkdirAll(filepath.Dir(p), 0o755)
	_ = os.WriteFile(p, out, 0o644)
}

// Check evaluates check(c) converting panics to errors; known findings are reported and
// swallowed; any other error fails the rapid run with a replay.
func (r *Run) Check(t *rapid.T, kind string, c interface{}, check func() error) {
	err := r.Watched(kind, c, check)
	if err == nil {
		return
	}
	if kf, ok := err.(*KnownErr); ok {
		r.Known(kf.Finding, kf.What)
		return
	}
	r.Fail(t, kind, c, err)
}

// CheckSweep is Check for enumerations (no rapid): returns false on a violation.
func (r *Run) CheckSweep(kind string, c interface{}, check func() error) bool {
	err := r.Watched(kind, c, check)
	if err == nil {
		return true
	}
	if kf, ok := err.(*KnownErr); ok {
		r.Known(kf.Finding, kf.What)
		return true
	}
	r.Violation(kind, c, err)
	return false
}

// ---------------------------------------------------------------------------------
// known findings

type Finding struct {
	Property string `json:"property"`
	ID       string `json:"id"`
	Status   string `json:"status"` // "known" or "fixed"
	Commit   string `json:"commit,omitempty"`
	What     string `json:"what"`
	Match    string `json:"match,omitempty"`
}

var (
	findingsOnce sync.Once
	findings     []Finding
)

func loadFindings() {
	data, err := os.ReadFile(filepath.Join(Dir(), "known_findings.json"))
	if err != nil {
		return
	}
	var f struct {
		Findings []Finding `json:"findings"`
	}
	if json.Unmarshal(data, &f) == nil {
		findings = f.Findings
	}
}

// IsKnown reports whether the finding is listed with status "known" for the property
// (the file is read-only at run time; a "fixed" entry suppresses nothing).
func IsKnown(property, id string) (Finding, bool) {
	findingsOnce.Do(loadFindings)
	for _, f := range findings {
		if f.Property == property && f.ID == id && f.Status == "known" {
			return f, true
		}
	}
	return Finding{}, false
}

// KnownErr is returned by a check whose only deviation is exactly a listed known finding.
type KnownErr struct {
	Finding string
	What    string
}

func (k *KnownErr) Error() string { return "known finding " + k.Finding + ": " + k.What }

// ---------------------------------------------------------------------------------
// evidence

type Evidence struct {
	ID         string
	Rule       string
	mu         sync.Mutex
	Evals      int64
	nontriv    map[uint64]struct{}
	Classes    map[string]int64
	samples    [3]json.RawMessage // first, latest power of two, last
	nSampled   int64
	explicit   []json.RawMessage
	KnownHits  map[string]int64
	Excluded   map[string]int64
	Notes      []string
	Assume     []string
	Exhaustive bool
	Extra      map[string]interface{}
	Regress    int
	WallS      float64
	Violations int
	// ExtraDistinct lets sweeps count distinct non-trivial cases without storing hashes
	// (every enumerated point is distinct by construction).
	ExtraDistinct int64
}

func NewEvidence(id, rule string) *Evidence {
	return &Evidence{ID: id, Rule: rule, nontriv: map[uint64]struct{}{}, Classes: map[string]int64{},
		KnownHits: map[string]int64{}, Excluded: map[string]int64{}, Extra: map[string]interface{}{}}
}

// Hash64 is FNV-1a over the parts.
func Hash64(parts ...interface{}) uint64 {
	h := uint64(14695981039346656037)
	mix := func(b byte) { h ^= uint64(b); h *= 1099511628211 }
	for _, p := range parts {
		switch v := p.(type) {
		case string:
			for i := 0; i < len(v); i++ {
				mix(v[i])
			}
			mix(0xff)
		case []byte:
			for _, b := range v {
				mix(b)
			}
			mix(0xfe)
		default:
			s := fmt.Sprint(v)
			for i := 0; i < len(s); i++ {
				mix(s[i])
			}
			mix(0xfd)
		}
	}
	return h
}

// Case counts one generated case.  sample is only called for the few cases kept as samples.
func (e *Evidence) Case(nontrivial bool, hash uint64, sample func() interface{}) {
	e.mu.Lock()
	defer e.mu.Unlock()
	e.Evals++
	if !nontrivial {
		return
	}
	if _, dup := e.nontriv[hash]; dup {
		return
	}
	e.nontriv[hash] = struct{}{}
	e.nSampled++
	n := e.nSampled
	if sample == nil {
		return
	}
	keep := n == 1 || n&(n-1) == 0 || n%4096 == 0
	if !keep {
		return
	}
	raw, err := json.Marshal(sample())
	if err != nil {
		return
	}
	if n == 1 {
		e.samples[0] = raw
	} else if n&(n-1) == 0 {
		e.samples[1] = raw
	} else {
		e.samples[2] = raw
	}
}

// Bulk counts n enumerated cases of which d are distinct non-trivial (sweeps).
func (e *Evidence) Bulk(n, d int64) {
	e.mu.Lock()
	e.Evals += n
	e.ExtraDistinct += d
	e.mu.Unlock()
}

// Sample adds an explicit sample (sweeps).
func (e *Evidence) Sample(v interface{}) {
	raw, err := json.Marshal(v)
	if err != nil {
		return
	}
	e.mu.Lock()
	defer e.mu.Unlock()
	if len(e.explicit) < 6 {
		e.explicit = append(e.explicit, raw)
	}
}

func (e *Evidence) Class(name string) { e.ClassN(name, 1) }
func (e *Evidence) ClassN(name string, n int64) {
	e.mu.Lock()
	e.Classes[name] += n
	e.mu.Unlock()
}
func (e *Evidence) Exclude(name string) {
	e.mu.Lock()
	e.Excluded[name]++
	e.mu.Unlock()
}
func (e *Evidence) Note(format string, a ...interface{}) {
	e.mu.Lock()
	e.Notes = append(e.Notes, fmt.Sprintf(format, a...))
	e.mu.Unlock()
}
func (e *Evidence) Assumption(s string) {
	e.mu.Lock()
	e.Assume = append(e.Assume, s)
	e.mu.Unlock()
}

type evidenceFile struct {
	PropertyID  string                 `json:"property_id"`
	Tier        string                 `json:"tier"`
	Seed        int64                  `json:"seed"`
	Level       string                 `json:"level"`
	Coverage    map[string]interface{} `json:"coverage"`
	Assumptions []string               `json:"assumptions,omitempty"`
	WallS       float64                `json:"wall_s"`
	Violations  int                    `json:"violations"`
}

func (e *Evidence) shardBase() string {
	return filepath.Join(Dir(), "evidence", ".shards", fmt.Sprintf("%s.shard%d", e.ID, Shard()))
}

// Write writes evidence/<id>.json, or, when sharded, a shard file plus its hash set for the merge step.
func (e *Evidence) Write() error {
	e.mu.Lock()
	defer e.mu.Unlock()
	cov := map[string]interface{}{
		"evaluations":              e.Evals,
		"distinct_nontrivial":      int64(len(e.nontriv)) + e.ExtraDistinct,
		"rule":                     e.Rule,
		"classes":                  e.Classes,
		"known_findings_hit":       e.KnownHits,
		"excluded_by_construction": e.Excluded,
		"regressions_replayed":     e.Regress,
	}
	samples := append([]json.RawMessage{}, e.explicit...)
	for _, s := range e.samples {
		if s != nil {
			samples = append(samples, s)
		}
	}
	cov["samples"] = samples
	if e.Exhaustive {
		cov["exhaustive"] = true
	}
	if len(e.Notes) > 0 {
		cov["notes"] = e.Notes
	}
	for k, v := range e.Extra {
		cov[k] = v
		if cells, ok := v.([]int64); ok && strings.HasSuffix(k, "_cells") {
			hit, min := cellStats(cells)
			cov[k+"_hit"], cov[k+"_min"] = hit, min
		}
	}
	ef := evidenceFile{PropertyID: e.ID, Tier: Tier(), Seed: Seed(), Level: "exploration", Coverage: cov,
		Assumptions: e.Assume, WallS: e.WallS, Violations: e.Violations}
	out, err := json.MarshalIndent(ef, "", " ")
	if err != nil {
		return err
	}
	if Shards() > 1 {
		base := e.shardBase()
		if err := os.MkdirAll(filepath.Dir(base), 0o755); err != nil {
			return err
		}
		hs := make([]byte, 8*len(e.nontriv))
		i := 0
		for h := range e.nontriv {
			binary.LittleEndian.PutUint64(hs[i:], h)
			i += 8
		}
		if err := os.WriteFile(base+".hashes", hs, 0o644); err != nil {
			return err
		}
		return os.WriteFile(base+".json", out, 0o644)
	}
	p := filepath.Join(Dir(), "evidence", e.ID+".json")
	if err := os.MkdirAll(filepath.Dir(p), 0o755); err != nil {
		return err
	}
	return os.WriteFile(p, out, 0o644)
}

func cellStats(c []int64) (hit int, min int64) {
	min = 1 << 62
	for _, n := range c {
		if n > 0 {
			hit++
		}
		if n < min {
			min = n
		}
	}
	return
}

// MergeShards combines the shard files of a property into evidence/<id>.json.
func MergeShards(id string, shards int) error {
	dir := filepath.Join(Dir(), "evidence", ".shards")
	var merged *evidenceFile
	union := map[uint64]struct{}{}
	var extraDistinct int64
	addInt := func(dst map[string]interface{}, k string, v interface{}) {
		f, _ := v.(float64)
		g, _ := dst[k].(float64)
		dst[k] = f + g
	}
	for k := 0; k < shards; k++ {
		base := filepath.Join(dir, fmt.Sprintf("%s.shard%d", id, k))
		data, err := os.ReadFile(base + ".json")
		if err != nil {
			return fmt.Errorf("shard %d: %w", k, err)
		}
		var ef evidenceFile
		if err := json.Unmarshal(data, &ef); err != nil {
			return err
		}
		hs, err := os.ReadFile(base + ".hashes")
		if err != nil {
			return err
		}
		for i := 0; i+8 <= len(hs); i += 8 {
			union[binary.LittleEndian.Uint64(hs[i:])] = struct{}{}
		}
		dn, _ := ef.Coverage["distinct_nontrivial"].(float64)
		extraDistinct += int64(dn) - int64(len(hs)/8)
		if merged == nil {
			merged = &ef
			continue
		}
		merged.WallS += 0 // wall time of the merge is the max, set below
		if ef.WallS > merged.WallS {
			merged.WallS = ef.WallS
		}
		merged.Violations += ef.Violations
		addInt(merged.Coverage, "evaluations", ef.Coverage["evaluations"])
		for _, mk := range []string{"classes", "known_findings_hit", "excluded_by_construction"} {
			dm, _ := merged.Coverage[mk].(map[string]interface{})
			sm, _ := ef.Coverage[mk].(map[string]interface{})
			if dm == nil {
				dm = map[string]interface{}{}
				merged.Coverage[mk] = dm
			}
			for kk, vv := range sm {
				addInt(dm, kk, vv)
			}
		}
		if s, ok := ef.Coverage["samples"].([]interface{}); ok && len(s) > 0 {
			ms, _ := merged.Coverage["samples"].([]interface{})
			if len(ms) < 6 {
				merged.Coverage["samples"] = append(ms, s[len(s)-1])
			}
		}
		for ek, v := range ef.Coverage {
			switch ek {
			case "evaluations", "distinct_nontrivial", "regressions_replayed", "shards":
				continue
			}
			if strings.HasSuffix(ek, "_hit") || strings.HasSuffix(ek, "_min") || strings.HasPrefix(ek, "const_") {
				continue
			}
			switch x := v.(type) {
			case float64:
				if strings.HasSuffix(ek, "_max") {
					if g, _ := merged.Coverage[ek].(float64); x > g {
						merged.Coverage[ek] = x
					}
					continue
				}
				addInt(merged.Coverage, ek, x)
			case []interface{}:
				if strings.HasSuffix(ek, "_cells") {
					dst, _ := merged.Coverage[ek].([]interface{})
					if len(dst) == len(x) {
						for i := range x {
							a, _ := dst[i].(float64)
							b, _ := x[i].(float64)
							dst[i] = a + b
						}
					}
				}
			}
		}
	}
	if merged == nil {
		return fmt.Errorf("no shards")
	}
	for k, v := range merged.Coverage {
		if arr, ok := v.([]interface{}); ok && strings.HasSuffix(k, "_cells") {
			cells := make([]int64, len(arr))
			for i := range arr {
				f, _ := arr[i].(float64)
				cells[i] = int64(f)
			}
			hit, min := cellStats(cells)
			merged.Coverage[k+"_hit"], merged.Coverage[k+"_min"] = hit, min
			merged.Coverage[k] = cells
		}
	}
	merged.Coverage["distinct_nontrivial"] = int64(len(union)) + extraDistinct
	merged.Coverage["shards"] = shards
	// integer-valued floats back to ints for readability
	var norm func(v interface{}) interface{}
	norm = func(v interface{}) interface{} {
		switch x := v.(type) {
		case float64:
			if x == float64(int64(x)) {
				return int64(x)
			}
		case map[string]interface{}:
			for k, vv := range x {
				x[k] = norm(vv)
			}
		}
		return v
	}
	for k, v := range merged.Coverage {
		if k == "samples" {
			continue
		}
		merged.Coverage[k] = norm(v)
	}
	out, err := json.MarshalIndent(merged, "", " ")
	if err != nil {
		return err
	}
	for k := 0; k < shards; k++ {
		base := filepath.Join(dir, fmt.Sprintf("%s.shard%d", id, k))
		_ = os.Remove(base + ".json")
		_ = os.Remove(base + ".hashes")
	}
	return os.WriteFile(filepath.Join(Dir(), "evidence", id+".json"), out, 0o644)
}

// Hex renders bytes for samples.
func Hex(b []byte) string {
	var sb strings.Builder
	for i, x := range b {
		if i > 0 {
			sb.WriteByte(' ')
		}
		fmt.Fprintf(&sb, "%02x", x)
	}
	return sb.String()
}
