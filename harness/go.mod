module verif/harness

go 1.23

require (
	github.com/alttpo/snes v0.0.0
	pgregory.net/rapid v1.3.0
)

replace github.com/alttpo/snes => /repo
