// Package asmcat holds a hand-written catalogue of asm.Emitter's instruction methods (derived
// from the method names only; opcode bytes come from wdc.Optab) and an executable model of the
// emitter used as the oracle of C03, C06, C07, C15, C16 and C19.
package asmcat

import (
	"fmt"
	"reflect"
	"sort"

	"github.com/alttpo/snes/asm"

	"verif/harness/wdc"
)

// Shape is the operand signature of a method.
type Shape int

const (
	None     Shape = iota
	U8             // (uint8)
	S8             // (int8)  relative displacement
	U16            // (uint16)
	U24            // (uint32) 24-bit address
	LoHi           // (lo, hi uint8)
	LoHiBank       // (lo, hi, bank uint8)
	DstSrc         // (destBank, srcBank uint8)
	FlagMask       // (asm.Flags)
	Label8         // (label string) relative branch
	Label16        // (label string) absolute jump
)

// Guard is the width precondition of immediate methods.
type Guard int

const (
	NoGuard Guard = iota
	M8
	M16
	X8
	X16
)

type Method struct {
	Name  string
	Mn    string
	Md    wdc.Mode
	Shape Shape
	Guard Guard
}

func imp(names ...string) []Method {
	var out []Method
	for _, n := range names {
		out = append(out, Method{Name: n, Mn: lower(n), Md: wdc.MImp, Shape: None})
	}
	return out
}

func lower(s string) string {
	b := []byte(s)
	for i := range b {
		if b[i] >= 'A' && b[i] <= 'Z' {
			b[i] += 32
		}
	}
	return string(b)
}

// Catalogue lists every instruction-emitting method by name, mnemonic and addressing mode.
var Catalogue = func() []Method {
	c := imp("NOP", "RTS", "RTL", "RTI", "DEX", "DEY", "PHB", "PHA", "PHX", "PHY", "PHP", "PHD", "PHK", "TCD",
		"PLD", "PLP", "PLY", "PLX", "PLA", "PLB", "XBA", "SEI", "CLI", "CLC", "STP", "TXA", "TAX")
	c = append(c,
		Method{"ASL", "asl", wdc.MAcc, None, NoGuard},
		Method{"REP", "rep", wdc.MImm8, FlagMask, NoGuard},
		Method{"SEP", "sep", wdc.MImm8, FlagMask, NoGuard},
		Method{"WDM", "wdm", wdc.MImm8, U8, NoGuard},
		// accumulator immediates
		Method{"LDA_imm8_b", "lda", wdc.MImmM, U8, M8}, Method{"LDA_imm16_w", "lda", wdc.MImmM, U16, M16}, Method{"LDA_imm16_lh", "lda", wdc.MImmM, LoHi, M16},
		Method{"ORA_imm8_b", "ora", wdc.MImmM, U8, M8}, Method{"ORA_imm16_w", "ora", wdc.MImmM, U16, M16},
		Method{"CMP_imm8_b", "cmp", wdc.MImmM, U8, M8}, Method{"CMP_imm16_w", "cmp", wdc.MImmM, U16, M16},
		Method{"AND_imm8_b", "and", wdc.MImmM, U8, M8}, Method{"AND_imm16_w", "and", wdc.MImmM, U16, M16},
		Method{"ADC_imm8_b", "adc", wdc.MImmM, U8, M8}, Method{"SBC_imm8_b", "sbc", wdc.MImmM, U8, M8},
		// index immediates
		Method{"CPY_imm8_b", "cpy", wdc.MImmX, U8, X8},
		Method{"LDX_imm8_b", "ldx", wdc.MImmX, U8, X8}, Method{"LDX_imm16_w", "ldx", wdc.MImmX, U16, X16},
		Method{"LDY_imm8_b", "ldy", wdc.MImmX, U8, X8}, Method{"LDY_imm16_w", "ldy", wdc.MImmX, U16, X16},
		// direct page
		Method{"STA_dp", "sta", wdc.MDp, U8, NoGuard}, Method{"STY_dp", "sty", wdc.MDp, U8, NoGuard}, Method{"STY_dp_x", "sty", wdc.MDpX, U8, NoGuard},
		Method{"STZ_dp", "stz", wdc.MDp, U8, NoGuard}, Method{"INC_dp", "inc", wdc.MDp, U8, NoGuard}, Method{"DEC_dp", "dec", wdc.MDp, U8, NoGuard},
		Method{"LDA_dp", "lda", wdc.MDp, U8, NoGuard},
		// absolute
		Method{"JSR_abs", "jsr", wdc.MAbs, U16, NoGuard}, Method{"JMP_abs_imm16_w", "jmp", wdc.MAbs, U16, NoGuard}, Method{"JMP_indirect", "jmp", wdc.MAbsInd, U16, NoGuard},
		Method{"LDA_abs", "lda", wdc.MAbs, U16, NoGuard}, Method{"LDA_abs_x", "lda", wdc.MAbsX, U16, NoGuard},
		Method{"STA_abs", "sta", wdc.MAbs, U16, NoGuard}, Method{"STA_abs_x", "sta", wdc.MAbsX, U16, NoGuard},
		Method{"STY_abs", "sty", wdc.MAbs, U16, NoGuard}, Method{"LDY_abs", "ldy", wdc.MAbs, U16, NoGuard},
		Method{"STZ_abs", "stz", wdc.MAbs, U16, NoGuard}, Method{"STZ_abs_x", "stz", wdc.MAbsX, U16, NoGuard},
		Method{"INC_abs", "inc", wdc.MAbs, U16, NoGuard}, Method{"DEC_abs", "dec", wdc.MAbs, U16, NoGuard},
		Method{"LDX_abs", "ldx", wdc.MAbs, U16, NoGuard}, Method{"STX_abs", "stx", wdc.MAbs, U16, NoGuard},
		// long
		Method{"JSL", "jsl", wdc.MLong, U24, NoGuard}, Method{"JSL_lhb", "jsl", wdc.MLong, LoHiBank, NoGuard}, Method{"JML", "jmp", wdc.MLong, U24, NoGuard},
		Method{"LDA_long", "lda", wdc.MLong, U24, NoGuard}, Method{"LDA_long_x", "lda", wdc.MLongX, U24, NoGuard}, Method{"STA_long", "sta", wdc.MLong, U24, NoGuard},
		Method{"ORA_long", "ora", wdc.MLong, U24, NoGuard}, Method{"CMP_long", "cmp", wdc.MLong, U24, NoGuard},
		// block move
		Method{"MVN", "mvn", wdc.MBlock, DstSrc, NoGuard},
		// relative branches with an explicit displacement
		Method{"BNE_imm8", "bne", wdc.MRel8, S8, NoGuard}, Method{"BEQ_imm8", "beq", wdc.MRel8, S8, NoGuard},
		Method{"BPL_imm8", "bpl", wdc.MRel8, S8, NoGuard}, Method{"BRA_imm8", "bra", wdc.MRel8, S8, NoGuard},
		// label references
		Method{"BNE", "bne", wdc.MRel8, Label8, NoGuard}, Method{"BEQ", "beq", wdc.MRel8, Label8, NoGuard}, Method{"BPL", "bpl", wdc.MRel8, Label8, NoGuard},
		Method{"BMI", "bmi", wdc.MRel8, Label8, NoGuard}, Method{"BCC", "bcc", wdc.MRel8, Label8, NoGuard}, Method{"BCS", "bcs", wdc.MRel8, Label8, NoGuard},
		Method{"BRA", "bra", wdc.MRel8, Label8, NoGuard},
		Method{"JMP_abs", "jmp", wdc.MAbs, Label16, NoGuard},
	)
	return c
}()

// NonInstruction are the exported methods of *asm.Emitter that do not emit an instruction.
var NonInstruction = map[string]bool{"Clone": true, "Append": true, "WriteTextTo": true, "WriteHexTo": true, "Finalize": true, "Label": true,
	"GetLabel": true, "Cap": true, "Len": true, "Bytes": true, "PC": true, "SetBase": true, "GetBase": true, "Comment": true, "EmitBytes": true,
	"Flags": true, "IsX16bit": true, "IsM16bit": true, "AssumeREP": true, "AssumeSEP": true}

var byName = func() map[string]Method {
	m := map[string]Method{}
	for _, c := range Catalogue {
		m[c.Name] = c
	}
	return m
}()

func Lookup(name string) (Method, bool) { m, ok := byName[name]; return m, ok }

// Uncatalogued lists exported methods of *asm.Emitter that are neither in the catalogue nor known
// non-instruction methods (a coverage gap to report, not a violation), and catalogue entries
// without a method.
func Uncatalogued() (extra, missing []string) {
	t := reflect.TypeOf(&asm.Emitter{})
	have := map[string]bool{}
	for i := 0; i < t.NumMethod(); i++ {
		n := t.Method(i).Name
		have[n] = true
		if _, ok := byName[n]; !ok && !NonInstruction[n] {
			extra = append(extra, n)
		}
	}
	for n := range byName {
		if !have[n] {
			missing = append(missing, n)
		}
	}
	sort.Strings(extra)
	sort.Strings(missing)
	return
}

// OperandBytes is the number of operand bytes of the shape.
func (m Method) OperandBytes() int {
	switch m.Shape {
	case None:
		return 0
	case U8, S8, FlagMask, Label8:
		return 1
	case U16, LoHi, DstSrc, Label16:
		return 2
	case U24, LoHiBank:
		return 3
	}
	panic("shape")
}

// Opcode looks the expected opcode byte up in the independent matrix.
func (m Method) Opcode() byte {
	op, ok := wdc.Opcode(m.Mn, m.Md)
	if !ok {
		panic(fmt.Sprintf("catalogue entry %s: no opcode for %s %s", m.Name, m.Mn, wdc.ModeName[m.Md]))
	}
	return op
}

// GuardOK tells whether the method is legal under the tracked flags.
func (m Method) GuardOK(flags byte) bool {
	m16, x16 := flags&0x20 == 0, flags&0x10 == 0
	switch m.Guard {
	case M8:
		return !m16
	case M16:
		return m16
	case X8:
		return !x16
	case X16:
		return x16
	}
	return true
}

// Args builds the reflect arguments for an operand value (labels are passed separately).
func (m Method) Args(v uint32, label string) []reflect.Value {
	switch m.Shape {
	case None:
		return nil
	case U8:
		return []reflect.Value{reflect.ValueOf(uint8(v))}
	case S8:
		return []reflect.Value{reflect.ValueOf(int8(v))}
	case FlagMask:
		return []reflect.Value{reflect.ValueOf(asm.Flags(v))}
	case U16:
		return []reflect.Value{reflect.ValueOf(uint16(v))}
	case U24:
		return []reflect.Value{reflect.ValueOf(v & 0xffffff)}
	case LoHi:
		return []reflect.Value{reflect.ValueOf(uint8(v)), reflect.ValueOf(uint8(v >> 8))}
	case LoHiBank:
		return []reflect.Value{reflect.ValueOf(uint8(v)), reflect.ValueOf(uint8(v >> 8)), reflect.ValueOf(uint8(v >> 16))}
	case DstSrc:
		return []reflect.Value{reflect.ValueOf(uint8(v)), reflect.ValueOf(uint8(v >> 8))}
	case Label8, Label16:
		return []reflect.Value{reflect.ValueOf(label)}
	}
	panic("shape")
}

// Encode gives the bytes the instruction set defines for the method and operand value
// (label references carry the $FF placeholders).
func (m Method) Encode(v uint32) []byte {
	b := []byte{m.Opcode()}
	switch m.Shape {
	case Label8:
		return append(b, 0xff)
	case Label16:
		return append(b, 0xff, 0xff)
	}
	for i := 0; i < m.OperandBytes(); i++ {
		b = append(b, byte(v>>(8*uint(i))))
	}
	return b
}
