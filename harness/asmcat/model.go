package asmcat

import (
	"fmt"
	"reflect"
	"sort"

	"github.com/alttpo/snes/asm"
)

// Op is one emitter call of a generated history.
type Op struct {
	Kind   string `json:"kind"`             // ins, data, label, comment, assume_sep, assume_rep, setbase
	Method string `json:"method,omitempty"` // ins: catalogue method name
	V      uint32 `json:"v,omitempty"`      // operand value / flag mask / base address / data length
	Label  string `json:"label,omitempty"`
	Seed   uint32 `json:"seed,omitempty"` // data bytes = DataByte(seed, i)
	// Period > 0: the data repeat with that period (tables of equal records): data bytes = DataByte(seed, i % Period)
	Period int    `json:"period,omitempty"`
	Text   string `json:"text,omitempty"`
	// Alias > 0 (data only, honoured by ApplyRealIn): the slice handed to EmitBytes is a window of the emitter's own target
	// buffer, Alias bytes above the write position, so that it overlaps the destination
	Alias uint32 `json:"alias,omitempty"`
	// Nops (data only): the block consists of NOP opcodes ($EA) - instructions emitted as raw bytes; every byte of it is
	// an instruction start
	Nops bool `json:"nops,omitempty"`
}

func (o Op) String() string {
	switch o.Kind {
	case "ins":
		if o.Label != "" {
			return fmt.Sprintf("%s(%q)", o.Method, o.Label)
		}
		return fmt.Sprintf("%s($%x)", o.Method, o.V)
	case "data":
		return fmt.Sprintf("EmitBytes(%d bytes)", o.V)
	case "label":
		return fmt.Sprintf("Label(%q)", o.Label)
	case "comment":
		return fmt.Sprintf("Comment(%d chars)", len(o.Text))
	case "setbase":
		return fmt.Sprintf("SetBase($%06x)", o.V)
	}
	return fmt.Sprintf("%s($%02x)", o.Kind, o.V)
}

func DataByte(seed uint32, i int) byte {
	x := uint32(i)*2654435761 ^ seed
	x ^= x >> 15
	x *= 2246822519
	x ^= x >> 13
	return byte(x)
}

func (o Op) Data() []byte {
	b := make([]byte, o.V)
	for i := range b {
		b[i] = DataByte(o.Seed, i)
		if o.Period > 0 {
			b[i] = DataByte(o.Seed, i%o.Period)
		}
		if o.Nops {
			b[i] = 0xEA
		}
	}
	return b
}

// ApplyReal performs the call on a real emitter; a panic is caught and returned.
func ApplyReal(em *asm.Emitter, o Op) (ret uint32, panicked interface{}) {
	return ApplyRealIn(em, o, nil)
}

// ApplyRealIn is ApplyReal for an emitter whose target buffer is known to the caller (needed for Op.Alias).
func ApplyRealIn(em *asm.Emitter, o Op, target []byte) (ret uint32, panicked interface{}) {
	defer func() {
		if r := recover(); r != nil {
			panicked = r
		}
	}()
	switch o.Kind {
	case "ins":
		m, ok := Lookup(o.Method)
		if !ok {
			panic("harness: unknown method " + o.Method)
		}
		reflect.ValueOf(em).MethodByName(o.Method).Call(m.Args(o.V, o.Label))
	case "data":
		d := o.Data()
		if lo := em.Len() + int(o.Alias); o.Alias > 0 && target != nil && lo+len(d) <= len(target) {
			// the data is prepared in the free part of the target buffer and emitted from there
			src := target[lo : lo+len(d)]
			copy(src, d)
			em.EmitBytes(src)
		} else {
			em.EmitBytes(d)
		}
	case "label":
		ret = em.Label(o.Label)
	case "comment":
		em.Comment(o.Text)
	case "assume_sep":
		em.AssumeSEP(asm.Flags(o.V))
	case "assume_rep":
		em.AssumeREP(asm.Flags(o.V))
	case "setbase":
		em.SetBase(o.V)
	default:
		panic("harness: bad op " + o.Kind)
	}
	return
}

// Ref is a pending label reference.
type Ref struct {
	Wide   bool   // false: rel8, true: abs16
	OpAddr uint32 // absolute address of the (first) operand byte
	Off    int    // offset of that byte in Bytes
	Label  string
	Ins    uint32 // address of the instruction
}

// Line is one expected listing record.
type Line struct {
	Kind  string // base, comment, label, db, ins
	Addr  uint32
	Off   int // offset of the bytes in Bytes
	N     int // number of bytes
	Text  string
	Label string // ins with a label reference
	Wide  bool
}

// Model is the executable specification of asm.Emitter.
type Model struct {
	Cap       int  // capacity of the target buffer
	NilTarget bool // emitter created without a target: accepts everything, stores nothing
	Listing   bool

	Bytes       []byte
	Base, Addr  uint32
	basePending bool
	Flags       byte
	Labels      map[string]uint32
	Refs        []Ref
	Lines       []Line
	InsStarts   []uint32 // address before each accepted instruction
}

func NewModel(capacity int, nilTarget, listing bool) *Model {
	return &Model{Cap: capacity, NilTarget: nilTarget, Listing: listing, Labels: map[string]uint32{}}
}

func (m *Model) Len() int {
	if m.NilTarget {
		return 0
	}
	return len(m.Bytes)
}

func (m *Model) flushBase() {
	if m.Listing && m.basePending {
		m.Lines = append(m.Lines, Line{Kind: "base", Addr: m.Addr})
		m.basePending = false
	}
}

func (m *Model) fits(n int) bool { return m.NilTarget || len(m.Bytes)+n <= m.Cap }

// Need returns the number of bytes the op emits.
func (o Op) Need() int {
	switch o.Kind {
	case "ins":
		mm, _ := Lookup(o.Method)
		return 1 + mm.OperandBytes()
	case "data":
		return int(o.V)
	}
	return 0
}

// Apply advances the model.  accepted=false means the real emitter must refuse the call
// (panic) for the given reason: "guard", "capacity" or "duplicate".
func (m *Model) Apply(o Op) (accepted bool, reason string) {
	switch o.Kind {
	case "ins":
		mm, ok := Lookup(o.Method)
		if !ok {
			panic("harness: unknown method " + o.Method)
		}
		if !mm.GuardOK(m.Flags) {
			return false, "guard"
		}
		enc := mm.Encode(o.V)
		if !m.fits(len(enc)) {
			return false, "capacity"
		}
		// REP/SEP update the tracker with the emitted mask
		if o.Method == "REP" {
			m.Flags &^= byte(o.V)
		} else if o.Method == "SEP" {
			m.Flags |= byte(o.V)
		}
		m.flushBase()
		m.InsStarts = append(m.InsStarts, m.Addr)
		off := len(m.Bytes)
		if m.Listing {
			m.Lines = append(m.Lines, Line{Kind: "ins", Addr: m.Addr, Off: off, N: len(enc), Label: o.Label, Wide: mm.Shape == Label16})
		}
		if mm.Shape == Label8 || mm.Shape == Label16 {
			m.Refs = append(m.Refs, Ref{Wide: mm.Shape == Label16, OpAddr: m.Addr + 1, Off: off + 1, Label: o.Label, Ins: m.Addr})
		}
		m.Bytes = append(m.Bytes, enc...)
		m.Addr += uint32(len(enc))
	case "data":
		if !m.fits(int(o.V)) {
			return false, "capacity"
		}
		m.flushBase()
		d := o.Data()
		if m.Listing {
			for i := 0; i < len(d); i += 16 {
				n := len(d) - i
				if n > 16 {
					n = 16
				}
				m.Lines = append(m.Lines, Line{Kind: "db", Addr: m.Addr + uint32(i), Off: len(m.Bytes) + i, N: n})
			}
		}
		if o.Nops {
			for i := range d {
				m.InsStarts = append(m.InsStarts, m.Addr+uint32(i))
			}
		}
		m.Bytes = append(m.Bytes, d...)
		m.Addr += uint32(len(d))
	case "label":
		if _, dup := m.Labels[o.Label]; dup {
			return false, "duplicate"
		}
		m.flushBase()
		m.Labels[o.Label] = m.Addr
		if m.Listing {
			m.Lines = append(m.Lines, Line{Kind: "label", Addr: m.Addr, Label: o.Label})
		}
	case "comment":
		m.flushBase()
		if m.Listing {
			m.Lines = append(m.Lines, Line{Kind: "comment", Addr: m.Addr, Text: o.Text})
		}
	case "assume_sep":
		m.Flags |= byte(o.V)
	case "assume_rep":
		m.Flags &^= byte(o.V)
	case "setbase":
		m.Base, m.Addr, m.basePending = o.V, o.V, true
	default:
		panic("harness: bad op " + o.Kind)
	}
	return true, ""
}

// FinalizeOutcome is what the specification says about Finalize on the current model.
type FinalizeOutcome struct {
	OK      bool
	Patched []byte          // image after a successful Finalize
	Missing map[string]bool // referenced but undefined labels
	TooFar  []Ref           // rel8 references out of -128..127
	Diffs   map[int]int     // Off of too-far refs -> distance
	Patch   map[int][]byte  // Off -> correct operand bytes for resolvable refs
	Unres   map[int]bool    // operand offsets (every byte) that can only hold the placeholder
}

func (m *Model) Finalize() FinalizeOutcome {
	out := FinalizeOutcome{Missing: map[string]bool{}, Diffs: map[int]int{}, Patch: map[int][]byte{}, Unres: map[int]bool{}}
	out.Patched = append([]byte(nil), m.Bytes...)
	for _, r := range m.Refs {
		addr, ok := m.Labels[r.Label]
		if !ok {
			out.Missing[r.Label] = true
			out.Unres[r.Off] = true
			if r.Wide {
				out.Unres[r.Off+1] = true
			}
			continue
		}
		if r.Wide {
			p := []byte{byte(addr), byte(addr >> 8)}
			out.Patch[r.Off] = p
			copy(out.Patched[r.Off:], p)
			continue
		}
		diff := int(addr) - int(r.OpAddr+1)
		if diff > 127 || diff < -128 {
			out.TooFar = append(out.TooFar, r)
			out.Diffs[r.Off] = diff
			out.Unres[r.Off] = true
			continue
		}
		out.Patch[r.Off] = []byte{byte(int8(diff))}
		out.Patched[r.Off] = byte(int8(diff))
	}
	out.OK = len(out.Missing) == 0 && len(out.TooFar) == 0
	return out
}

// Resolve marks the model as finalized successfully: bytes patched, references gone.
func (m *Model) Resolve(o FinalizeOutcome) {
	m.Bytes = o.Patched
	m.Refs = nil
}

// LabelNames returns the defined label names, sorted.
func (m *Model) LabelNames() []string {
	var n []string
	for k := range m.Labels {
		n = append(n, k)
	}
	sort.Strings(n)
	return n
}
