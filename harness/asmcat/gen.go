package asmcat

import (
	"pgregory.net/rapid"
)

// GenOpts selects what a generated emitter history may contain.
type GenOpts struct {
	MaxOps       int
	Labels       bool // label definitions, label branches and jumps (with distance solving)
	Data         bool
	Comments     bool
	SetBase      bool
	Assume       bool
	BadGuard     bool // now and then call an immediate method under the wrong tracked width
	Straight     bool // C07: no taken control transfer, no flag restore from the stack
	LongComments bool
}

var labelPool = []string{"l0", "loop", "done", "next", "L4", "skip_5", "a", "zz_end", "", ".loc", "twelve_chars", "thirteen_char", "a_label_name_wider_than_any_listing_column", "a:", "exit:", "l0 "} // the empty string is a label name like any other

var dataLens = []int{0, 1, 2, 15, 16, 17, 31, 32, 33, 47, 48, 49, 64, 65, 80}

// straightExcluded are the methods a straight-line program (C07) must not contain.
var straightExcluded = map[string]bool{"JSR_abs": true, "JSL": true, "JSL_lhb": true, "JML": true, "JMP_abs_imm16_w": true, "JMP_indirect": true,
	"RTS": true, "RTL": true, "RTI": true, "PLP": true, "STP": true, "WDM": false}

func drawOperand(t *rapid.T, m Method) uint32 {
	edge := rapid.IntRange(0, 3).Draw(t, "v-edge") == 0
	switch m.Shape {
	case None:
		return 0
	case U8, S8, FlagMask:
		if edge {
			return uint32(rapid.SampledFrom([]byte{0, 1, 0x7f, 0x80, 0xff, 0x30, 0x20, 0x10}).Draw(t, "v8e"))
		}
		return uint32(rapid.Byte().Draw(t, "v8"))
	case U16, LoHi, DstSrc:
		if edge {
			return uint32(rapid.SampledFrom([]uint16{0, 1, 0xff, 0x100, 0x7fff, 0x8000, 0xffff, 0x00ff, 0xff00, 0x1234}).Draw(t, "v16e"))
		}
		return uint32(rapid.Uint16().Draw(t, "v16"))
	case U24, LoHiBank:
		if edge {
			return rapid.SampledFrom([]uint32{0, 1, 0xffffff, 0x7e0000, 0x7fffff, 0x800000, 0x00ffff, 0x010000, 0x123456, 0xff0000}).Draw(t, "v24e")
		}
		return rapid.Uint32Range(0, 0xffffff).Draw(t, "v24")
	}
	return 0
}

// GenHistory draws a history of emitter calls.  The returned ops are legal in the sense of
// the properties' domains: base set at most once and first, program inside one bank, label
// names and comments without line breaks.
func GenHistory(t *rapid.T, o GenOpts) []Op {
	var ops []Op
	m := NewModel(1<<30, false, false)
	add := func(op Op) bool {
		ok, _ := m.Apply(op)
		ops = append(ops, op)
		return ok
	}
	if o.Assume && o.SetBase && rapid.IntRange(0, 3).Draw(t, "assume-before-base") == 0 {
		add(Op{Kind: "assume_sep", V: uint32(rapid.SampledFrom([]byte{0x30, 0x20, 0x10}).Draw(t, "pre-mask"))})
	}
	if o.SetBase && rapid.IntRange(0, 2).Draw(t, "with-base") != 0 {
		if o.Comments && rapid.IntRange(0, 3).Draw(t, "comment-before-base") == 0 {
			add(Op{Kind: "comment", Text: "header"}) // a listing line that precedes the base directive
		}
		bank := rapid.SampledFrom([]uint32{0x00, 0x7e, 0x80, 0xff, 0x01, 0x3f}).Draw(t, "base-bank")
		off := rapid.SampledFrom([]uint32{0x0000, 0x8000, 0x1000, 0xc000, 0x7ff0, 0x00f0}).Draw(t, "base-off")
		if rapid.Bool().Draw(t, "base-rand") {
			off = rapid.Uint32Range(0, 0xc000).Draw(t, "base-offr")
		}
		add(Op{Kind: "setbase", V: bank<<16 | off})
	}
	if o.Assume && rapid.Bool().Draw(t, "initial-assume") {
		add(Op{Kind: "assume_sep", V: uint32(rapid.SampledFrom([]byte{0x30, 0x20, 0x10, 0xff, 0x00}).Draw(t, "init-mask"))})
	}
	type pend struct {
		ins uint32
	}
	pending := map[string][]pend{} // forward rel8 references not yet resolved
	n := rapid.IntRange(1, o.MaxOps).Draw(t, "nops")
	var legal, illegal []Method
	pick := func() (Method, bool) {
		legal, illegal = legal[:0], illegal[:0]
		for _, c := range Catalogue {
			if c.Shape == Label8 || c.Shape == Label16 {
				continue
			}
			if o.Straight && straightExcluded[c.Name] {
				continue
			}
			if c.GuardOK(m.Flags) {
				legal = append(legal, c)
			} else {
				illegal = append(illegal, c)
			}
		}
		if o.BadGuard && len(illegal) > 0 && rapid.IntRange(0, 7).Draw(t, "bad-guard") == 0 {
			return illegal[rapid.IntRange(0, len(illegal)-1).Draw(t, "bad-m")], false
		}
		// immediates (width-dependent) are over-represented
		if rapid.IntRange(0, 2).Draw(t, "imm-bias") == 0 {
			var imm []Method
			for _, c := range legal {
				if c.Guard != NoGuard || c.Name == "REP" || c.Name == "SEP" {
					imm = append(imm, c)
				}
			}
			if len(imm) > 0 {
				return imm[rapid.IntRange(0, len(imm)-1).Draw(t, "imm-m")], true
			}
		}
		return legal[rapid.IntRange(0, len(legal)-1).Draw(t, "m")], true
	}
	pad := func(k int) {
		if k > 0 && k <= 300 && o.Data {
			add(Op{Kind: "data", V: uint32(k), Seed: rapid.Uint32().Draw(t, "pad-seed")})
		} else if k > 0 && k <= 300 {
			for ; k > 0; k-- {
				add(Op{Kind: "ins", Method: "NOP"})
			}
		}
	}
	for i := 0; i < n && len(m.Bytes) < 0x2800; i++ {
		k := rapid.IntRange(0, 99).Draw(t, "kind")
		switch {
		case o.Labels && k < 14: // branch to a label
			lab := labelPool[rapid.IntRange(0, len(labelPool)-1).Draw(t, "blabel")]
			meth := rapid.SampledFrom([]string{"BNE", "BEQ", "BPL", "BMI", "BCC", "BCS", "BRA"}).Draw(t, "branch")
			if addr, def := m.Labels[lab]; def && rapid.IntRange(0, 1).Draw(t, "solve-back") == 0 {
				// backward reference: solve for -128 / -129
				want := rapid.SampledFrom([]int{128, 129, 127}).Draw(t, "back-dist")
				pad(want - int(m.Addr+2-addr))
			}
			ins := m.Addr
			add(Op{Kind: "ins", Method: meth, Label: lab})
			if _, def := m.Labels[lab]; !def {
				pending[lab] = append(pending[lab], pend{ins})
			}
		case o.Labels && k < 19: // absolute jump to a label
			lab := labelPool[rapid.IntRange(0, len(labelPool)-1).Draw(t, "jlabel")]
			add(Op{Kind: "ins", Method: "JMP_abs", Label: lab})
		case o.Labels && k < 32: // define a label (possibly again: must be refused)
			lab := labelPool[rapid.IntRange(0, len(labelPool)-1).Draw(t, "dlabel")]
			if ps := pending[lab]; len(ps) > 0 && rapid.IntRange(0, 1).Draw(t, "solve-fwd") == 0 {
				want := rapid.SampledFrom([]int{127, 128, 126}).Draw(t, "fwd-dist")
				which := ps[rapid.IntRange(0, len(ps)-1).Draw(t, "fwd-which")]
				pad(want - int(m.Addr-(which.ins+2)))
			}
			add(Op{Kind: "label", Label: lab})
			delete(pending, lab)
		case o.Data && k < 42:
			ln := dataLens[rapid.IntRange(0, len(dataLens)-1).Draw(t, "dlen")]
			if rapid.IntRange(0, 15).Draw(t, "big-block") == 7 {
				ln = rapid.SampledFrom([]int{255, 256, 257, 260, 300, 511, 512, 1000}).Draw(t, "dlen-big") // lengths that do not fit a byte
			}
			dop := Op{Kind: "data", V: uint32(ln), Seed: rapid.Uint32().Draw(t, "dseed")}
			if ln >= 32 && rapid.IntRange(0, 3).Draw(t, "periodic-data") == 0 {
				// a table of equal records: rows of the listing repeat, shifted or not
				dop.Period = rapid.SampledFrom([]int{1, 2, 3, 8, 15, 16, 17, 31, 32, 33}).Draw(t, "period")
			}
			add(dop)
		case o.Comments && k < 48:
			var txt string
			if o.LongComments && rapid.IntRange(0, 3).Draw(t, "long-comment") == 0 {
				txt = rapid.StringOfN(rapid.RuneFrom(printable), 100, 300, -1).Draw(t, "ctext-long")
			} else {
				txt = rapid.StringOfN(rapid.RuneFrom(printable), 0, 40, -1).Draw(t, "ctext")
			}
			add(Op{Kind: "comment", Text: txt})
			if rapid.IntRange(0, 4).Draw(t, "comment-twice") == 0 {
				add(Op{Kind: "comment", Text: txt}) // the same separator line twice in a row
			}
		case o.Assume && k < 54:
			kind := rapid.SampledFrom([]string{"assume_sep", "assume_rep"}).Draw(t, "assume")
			add(Op{Kind: kind, V: uint32(rapid.SampledFrom([]byte{0x30, 0x20, 0x10, 0x01, 0xff, 0xcf}).Draw(t, "amask"))})
		default:
			mm, _ := pick()
			v := drawOperand(t, mm)
			if o.Straight && mm.Shape == S8 {
				v = 0 // a conditional branch with displacement 0 falls through whether taken or not
			}
			add(Op{Kind: "ins", Method: mm.Name, V: v})
		}
	}
	if o.Labels && rapid.IntRange(0, 9).Draw(t, "define-rest") < 6 {
		// define every label that is referenced but still undefined, so that Finalize can succeed
		for _, lab := range labelPool {
			if _, def := m.Labels[lab]; def {
				continue
			}
			used := false
			for _, r := range m.Refs {
				used = used || r.Label == lab
			}
			if !used {
				continue
			}
			if ps := pending[lab]; len(ps) > 0 && rapid.IntRange(0, 2).Draw(t, "solve-rest") == 0 {
				want := rapid.SampledFrom([]int{127, 128}).Draw(t, "rest-dist")
				pad(want - int(m.Addr-(ps[0].ins+2)))
			}
			add(Op{Kind: "label", Label: lab})
		}
	}
	if bi := BaseIndex(ops); bi >= 0 && len(m.Bytes) > 0 && rapid.IntRange(0, 3).Draw(t, "end-at-bank-end") == 0 {
		// the program's last byte sits at $xx:FFFF
		ops[bi].V = ops[bi].V&0xff0000 | uint32(0x10000-len(m.Bytes))&0xffff
	}
	return ops
}

// printable characters: comments and labels contain no line breaks (domain of the properties)
var printable = func() []rune {
	var r []rune
	for c := rune(0x20); c < 0x7f; c++ {
		r = append(r, c)
	}
	// text is UTF-8: a few characters beyond ASCII (their low bytes include $0A, $22 and $20)
	r = append(r, 'é', 'ü', 'ß', '→', 'Ċ', '日', '€', 'Ġ', 'Ģ')
	return r
}()

// BaseIndex returns the index of the SetBase call of a history (always before the first emission), or -1.
func BaseIndex(ops []Op) int {
	for i, o := range ops {
		if o.Kind == "setbase" {
			return i
		}
		if o.Need() > 0 {
			break
		}
	}
	return -1
}
