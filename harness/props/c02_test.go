package props

import (
	"encoding/json"
	"fmt"
	"testing"

	"pgregory.net/rapid"

	"verif/harness/rig"
	"verif/harness/wdc"
)

// C02 — the two CPU interpreters are observationally equivalent, cycle for cycle.

type c02Case struct {
	Init    rig.Raw     `json:"init"`
	MemSeed uint32      `json:"mem_seed"`
	Patches []rig.Patch `json:"patches"`
	Actions []string    `json:"actions"` // "step", "irq", "nmi", "reset", "fork"
	// WdmIrq: both CPUs have an OnWDM hook that raises an IRQ from inside the step when the WDM operand is odd
	// (a device reacting to the instruction)
	WdmIrq bool `json:"wdm_irq,omitempty"`
}

type c02Stats struct {
	Steps    []stepInfo
	E1Steps  int
	DecSteps int
	IntTaken int
	BothPan  int
	// HookFailures: steps in which the WDM hook panicked in both interpreters and the step was made again
	HookFailures int
}

const c02HookFailure = "c02: the WDM hook failed"

const interruptNMI = 2 // value of the unexported interruptNMI constant in both packages

// c02Run executes the actions on both interpreters; with a synth the step actions place
// instructions just in time.
func c02Run(c *c02Case, synth *rig.Synth, nextAction func() string, stats *c02Stats) error {
	p0, a0 := cpus()
	var pri, alt rig.CPU = p0, a0
	// CPUs left behind by a fork action: they must keep the state they had
	type left struct {
		cpu rig.CPU
		raw rig.Raw
	}
	var behind []left
	checkBehind := func(k int) error {
		for _, l := range behind {
			if got := l.cpu.Raw(); got != l.raw {
				return fmt.Errorf("action %d: running the %s created with InitFrom changed the CPU it was copied from: %+v -> %+v", k, l.cpu.Name(), l.raw, got)
			}
		}
		behind = behind[:0]
		return nil
	}
	m1, m2 := rig.NewMem(c.MemSeed), rig.NewMem(c.MemSeed)
	for _, p := range c.Patches {
		m1.Poke(p.Addr, p.Val)
		m2.Poke(p.Addr, p.Val)
	}
	pri.SetMem(m1)
	alt.SetMem(m2)
	if c.MemSeed&4 != 0 {
		// (registers set through the exported fields only, on objects that have run the earlier cases)
		if c.MemSeed&8 != 0 {
			_ = pri.Inspect()
		}
		pri.SoftLoadRaw(c.Init)
	} else {
		pri.LoadRaw(c.Init)
	}
	alt.LoadRaw(c.Init)
	m1.DoLog = true
	if synth != nil {
		synth.Mem = m1
	}
	p0.C.OnWDM, a0.C.OnWDM = nil, nil
	if c.WdmIrq {
		// installed on the singletons (forks copy them and keep calling the CPU the hook was made for, which is then
		// out of use: so the hook targets whichever CPU is current)
		// ... and fails (panics) the first time the operand ends in binary 11: the caller recovers, puts the registers
		// back and steps again
		priFailed, altFailed := false, false
		p0.C.OnWDM = func(b byte) {
			if b&3 == 3 && !priFailed {
				priFailed = true
				panic(c02HookFailure)
			}
			if b&1 == 1 {
				pri.TriggerIRQ()
			}
		}
		a0.C.OnWDM = func(b byte) {
			if b&3 == 3 && !altFailed {
				altFailed = true
				panic(c02HookFailure)
			}
			if b&1 == 1 {
				alt.TriggerIRQ()
			}
		}
		defer func() { p0.C.OnWDM, a0.C.OnWDM = nil, nil }()
	}
	compare := func(k int, what string) error {
		r1, r2 := pri.Raw(), alt.Raw()
		a1, a2 := rig.RawToArch(r1), rig.RawToArch(r2)
		if d := rig.DiffArch(a1, a2); len(d) > 0 {
			return fmt.Errorf("action %d %s: interpreters differ in %v (cpu65c816 %+v; cpualt %+v)", k, what, d, a1, a2)
		}
		if r1.Cycles != r2.Cycles || r1.AllCycles != r2.AllCycles {
			return fmt.Errorf("action %d %s: cycle bookkeeping differs: cpu65c816 Cycles=%d AllCycles=%d, cpualt Cycles=%d AllCycles=%d", k, what, r1.Cycles, r1.AllCycles, r2.Cycles, r2.AllCycles)
		}
		if r1.Interrupt != r2.Interrupt || r1.PPC != r2.PPC || r1.PRK != r2.PRK || r1.B != r2.B {
			return fmt.Errorf("action %d %s: pending interrupt / previous PC differ: cpu65c816 int=%d PPC=%02x:%04x, cpualt int=%d PPC=%02x:%04x", k, what, r1.Interrupt, r1.PRK, r1.PPC, r2.Interrupt, r2.PRK, r2.PPC)
		}
		if f1, f2 := m1.BusFault(), m2.BusFault(); f1 != f2 {
			// (on a bus with several devices the two would talk to different devices)
			return fmt.Errorf("action %d %s: the interpreters differ in how their bus accesses were delivered: cpu65c816 %q, cpualt %q", k, what, f1, f2)
		}
		if dm := rig.DiffMem(m1, m2, 4); len(dm) > 0 {
			return fmt.Errorf("action %d %s: memories differ at $%06X (cpu65c816 %02x, cpualt %02x)", k, what, dm[0], m1.Peek(dm[0]), m2.Peek(dm[0]))
		}
		return nil
	}
	n := len(c.Actions)
	for k := 0; synth != nil || k < n; k++ {
		var act string
		if synth != nil {
			act = nextAction()
			if act == "" {
				break
			}
			c.Actions = append(c.Actions, act)
		} else {
			act = c.Actions[k]
		}
		switch act {
		case "fork":
			// continue on CPUs created with InitFrom from the current ones
			if err := checkBehind(k); err != nil {
				return err
			}
			behind = append(behind, left{pri, pri.Raw()}, left{alt, alt.Raw()})
			pri, alt = pri.Fork(), alt.Fork()
		case "irq":
			pri.TriggerIRQ()
			alt.TriggerIRQ()
		case "nmi":
			pri.SetInterrupt(interruptNMI)
			alt.SetInterrupt(interruptNMI)
		case "reset":
			p1, p2 := pri.Reset(), alt.Reset()
			if (p1 == nil) != (p2 == nil) {
				return fmt.Errorf("action %d reset: exactly one interpreter panicked: cpu65c816=%v cpualt=%v", k, p1, p2)
			}
			if p1 != nil {
				return nil
			}
		case "step":
			if c.MemSeed&8 != 0 {
				// the calls a debugger makes between two steps (packed flags, disassembly of what lies at the program
				// counter now, before the next instruction is even in place) change nothing
				for _, cpu := range []rig.CPU{pri, alt} {
					if msg := cpu.Inspect(); msg != "" {
						return fmt.Errorf("action %d: %s: %s", k, cpu.Name(), msg)
					}
				}
			}
			pre := pri.Arch()
			if synth != nil {
				n0 := len(synth.Patches)
				synth.Instr(pre)
				for _, p := range synth.Patches[n0:] {
					c.Patches = append(c.Patches, p)
					m2.Poke(p.Addr, p.Val)
				}
			}
			what := insString(m1, pre)
			if stats != nil {
				cls := ""
				if synth != nil {
					cls = synth.LastCls
				}
				stats.Steps = append(stats.Steps, stepInfo{m1.Peek(uint32(pre.K)<<16 | uint32(pre.PC)), pre.P&wdc.FM != 0, pre.P&wdc.FX != 0, cls})
				if pre.E {
					stats.E1Steps++
				}
				if pre.P&wdc.FD != 0 {
					stats.DecSteps++
				}
				if pri.Raw().Interrupt > 1 {
					stats.IntTaken++
				}
			}
			m1.Log = m1.Log[:0]
			preRaw := pri.Raw()
			c1, s1, p1 := pri.Step()
			c2, s2, p2 := alt.Step()
			if p1 == c02HookFailure && p2 == c02HookFailure {
				// the hook failed in both; the caller puts the registers back to what they were and steps again
				pri.SoftLoadRaw(preRaw)
				alt.SoftLoadRaw(preRaw)
				if stats != nil {
					stats.HookFailures++
				}
				m1.Log = m1.Log[:0]
				c1, s1, p1 = pri.Step()
				c2, s2, p2 = alt.Step()
			}
			if synth != nil {
				synth.NoteAccess(m1.Log)
			}
			if (p1 == nil) != (p2 == nil) {
				return fmt.Errorf("action %d step %s: exactly one interpreter panicked: cpu65c816=%v cpualt=%v (state before %+v)", k, what, p1, p2, pre)
			}
			if p1 != nil {
				if stats != nil {
					stats.BothPan++
				}
				return nil // both crashed alike (the crash itself is C08's)
			}
			if c1 != c2 || s1 != s2 {
				return fmt.Errorf("action %d step %s: Step() returned (%d,%v) on cpu65c816 and (%d,%v) on cpualt (state before %+v)", k, what, c1, s1, c2, s2, pre)
			}
			if err := compare(k, "step "+what+fmt.Sprintf(" (state before %+v)", pre)); err != nil {
				return err
			}
			continue
		default:
			return fmt.Errorf("bad action %q", act)
		}
		if err := compare(k, act); err != nil {
			return err
		}
	}
	return checkBehind(len(c.Actions))
}

func c02Check(c c02Case) error {
	cc := c
	return c02Run(&cc, nil, nil, nil)
}

func init() {
	rig.RegisterReplay("C02", func(data []byte) error {
		var rf rig.ReplayFile
		if err := json.Unmarshal(data, &rf); err != nil {
			return err
		}
		// regress files shared with C01 carry a progCase: convert
		var probe map[string]json.RawMessage
		_ = json.Unmarshal(rf.Case, &probe)
		if _, isProg := probe["steps"]; isProg {
			var pc progCase
			if err := json.Unmarshal(rf.Case, &pc); err != nil {
				return err
			}
			c := c02Case{Init: rig.ArchToRaw(pc.Init), MemSeed: pc.MemSeed, Patches: pc.Patches}
			for i := 0; i < pc.Steps; i++ {
				c.Actions = append(c.Actions, "step")
			}
			return c02Check(c)
		}
		var c c02Case
		if err := json.Unmarshal(rf.Case, &c); err != nil {
			return err
		}
		return c02Check(c)
	})
}

// c02GenRaw draws a raw register file: any E, D, widths; the non-authoritative copies are
// arbitrary 30% of the time (legitimate: both interpreters receive the same raw fields).
func c02GenRaw(d rig.Drawer, op0 byte) rig.Raw {
	a := rig.GenArch(d, op0, d.Intn("top", 4) == 0)
	if d.Intn("dflag2", 3) == 0 {
		a.P |= wdc.FD
	}
	a.E = d.Intn("emu", 3) == 0
	r := rig.ArchToRaw(a)
	if d.Intn("incoherent", 10) < 3 {
		if r.M == 1 {
			r.RA = uint16(d.U32("stale-ra"))
		} else {
			r.RAl, r.RAh = byte(d.U32("stale-ral")), byte(d.U32("stale-rah"))
		}
		if r.X == 1 {
			r.RX, r.RY = uint16(d.U32("stale-rx")), uint16(d.U32("stale-ry"))
		} else {
			r.RXl, r.RYl = byte(d.U32("stale-rxl")), byte(d.U32("stale-ryl"))
		}
	}
	r.I = byte(d.Intn("iflag", 2))
	// the running cycle total the CPUs start from: zero, or close below 2^16 / 2^32 / 2^63 / 2^64
	switch d.Intn("allcycles", 8) {
	case 0:
		r.AllCycles = 1<<16 - uint64(d.Intn("ac-below", 12))
	case 1:
		r.AllCycles = 1<<32 - uint64(d.Intn("ac-below", 12))
	case 2:
		r.AllCycles = 1<<63 - uint64(d.Intn("ac-below", 12))
	case 3:
		r.AllCycles = ^uint64(0) - uint64(d.Intn("ac-below", 12))
	}
	return r
}

func TestC02(t *testing.T) {
	rig.Main(t, "C02", "rapid state machines over the pair (cpu65c816, cpualt) loaded from the same raw register file (E=0/1, any D/M/X, stale non-authoritative "+
		"register copies 30% of the time) and the same sparse image; actions step (just-in-time edge-solving synthesis, all 256 opcodes), TriggerIRQ, NMI, Reset, fork (both continue on CPUs created with InitFrom; the CPUs left behind must keep their state); after every action "+
		"Step() results, Cycles, AllCycles, architectural view, flags, E, Stopped, WDM, PPC/PRK, pending interrupt and memory must be equal; the WDM hook of both interpreters panics once (operand ending in binary 11), the caller restores the exported register fields and makes the step again; every other case starts from registers set through the exported fields only (cpu65c816), and in a quarter of the cases Flags() and the disassemblers are called between the steps.  Non-trivial = at least one step executed "+
		"on both without panic; distinct = hash(raw state, memory seed, patches, actions).",
		func(r *rig.Run) {
			ev := r.Ev
			var cells [1024]int64
			var steps, e1, dec, ints, bothPan int64
			maxActs := rig.Pick(32, 128)
			r.Rapid("machine", rig.Pick(50000, 300000), func(t *rapid.T) {
				d := rig.RapidDrawer{T: t}
				syn := rig.NewSynth(d, nil)
				op0 := byte(d.U32("op0-pre"))
				syn.ForceFirst(op0)
				c := c02Case{MemSeed: d.U32("memseed")}
				if d.Intn("wdm-irq", 12) == 5 {
					// the first instruction is a WDM whose hook raises an IRQ from inside the step
					c.WdmIrq = true
					op0 = 0x42
					syn.ForceFirst(op0)
					ev.Class("wdm-hook-raises-irq-inside-the-step")
				}
				c.Init = c02GenRaw(d, op0)
				left := 1 + d.Intn("nacts", maxActs)
				var st c02Stats
				next := func() string {
					if left == 0 {
						return ""
					}
					left--
					switch d.Intn("act", 16) {
					case 0:
						return "irq"
					case 1:
						return "nmi"
					case 2:
						if d.Intn("reset", 3) == 0 {
							return "reset"
						}
					case 3:
						if d.Intn("fork", 48) == 0 {
							return "fork"
						}
					}
					return "step"
				}
				err := func() error {
					defer r.Deadman("machine", &c)()
					return c02Run(&c, syn, next, &st)
				}()
				if err != nil {
					r.Fail(t, "machine", c, err)
				}
				h := rig.Hash64(fmt.Sprint(c.Init), c.MemSeed, fmt.Sprint(c.Actions))
				for _, p := range c.Patches {
					h = h*1099511628211 ^ uint64(p.Addr)<<8 ^ uint64(p.Val)
				}
				for _, si := range st.Steps {
					i := int(si.Op) << 2
					if si.M8 {
						i |= 2
					}
					if si.X8 {
						i |= 1
					}
					cells[i]++
					ev.Class("mode/" + wdc.ModeName[wdc.Optab[si.Op].Md] + "/" + si.Cls)
				}
				steps += int64(len(st.Steps))
				e1 += int64(st.E1Steps)
				dec += int64(st.DecSteps)
				ints += int64(st.IntTaken)
				bothPan += int64(st.BothPan)
				ev.ClassN("step-made-again-after-the-WDM-hook-panicked", int64(st.HookFailures))
				for _, a := range c.Actions {
					if a != "step" {
						ev.Class("action/" + a)
					}
				}
				ev.Case(len(st.Steps) > st.BothPan, h, func() interface{} { return c })
			})
			ev.Extra["opcode_x_M_x_X_cells"] = cells[:]
			ev.Extra["const_cells_layout"] = "index = opcode<<2 | m8<<1 | x8; value = executed instructions"
			ev.Extra["steps_executed"] = steps
			ev.Extra["steps_in_emulation_mode"] = e1
			ev.Extra["steps_with_decimal_flag"] = dec
			ev.Extra["steps_entering_an_interrupt"] = ints
			ev.Extra["steps_where_both_panicked"] = bothPan
			if steps > 20000 && (e1 == 0 || dec == 0 || ints == 0) {
				r.Infra("generator did not reach a class: E=1 steps %d, D=1 steps %d, interrupts %d", e1, dec, ints)
			}
		})
}
