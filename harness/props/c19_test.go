package props

import (
	"bytes"
	"encoding/json"
	"fmt"
	"testing"

	"github.com/alttpo/snes/asm"
	"pgregory.net/rapid"

	"verif/harness/asmcat"
	"verif/harness/rig"
)

// C19 — emission is all-or-nothing at capacity; dry-run emitters track addresses equally.

type c19Case struct {
	Ops     []asmcat.Op `json:"ops"`
	Cap     int         `json:"cap"`
	Listing bool        `json:"listing"`
	// ops[CloneFrom:CloneTo] reach the bounded emitter through a Clone (with its own ample buffer) that is appended
	// back, provided everything up to CloneTo fits the capacity; the calls after it meet the capacity limit
	CloneFrom int `json:"clone_from,omitempty"`
	CloneTo   int `json:"clone_to,omitempty"`
}

func c19Check(c c19Case) error {
	// bounded emitter against the model's capacity rule
	// the target is a window into a larger array (len < cap): the bytes around it must stay untouched
	big := make([]byte, c.Cap+24)
	for i := range big {
		big[i] = 0xC3
	}
	target := big[8 : 8+c.Cap]
	defer func() {}()
	p := &emPair{em: asm.NewEmitter(target, c.Listing), m: asmcat.NewModel(c.Cap, false, c.Listing)}
	if p.em.Cap() != c.Cap {
		return fmt.Errorf("Cap() = %d for a %d-byte target", p.em.Cap(), c.Cap)
	}
	orig := p.em
	useClone := c.CloneTo > c.CloneFrom && c.CloneTo <= len(c.Ops) && needOf(c.Ops[:c.CloneTo]) <= c.Cap
	join := func() error {
		var pan interface{}
		func() {
			defer func() { pan = recover() }()
			orig.Append(p.em)
		}()
		if pan != nil {
			return fmt.Errorf("Append of a clone whose bytes fit the remaining capacity failed: %v", pan)
		}
		p.em, p.lenBias = orig, 0
		return nil
	}
	for i, o := range c.Ops {
		if useClone && i == c.CloneFrom {
			p.lenBias = orig.Len()
			p.em = orig.Clone(make([]byte, needOf(c.Ops[c.CloneFrom:c.CloneTo])+4))
		}
		if useClone && i == c.CloneTo {
			if err := join(); err != nil {
				return err
			}
		}
		if err := p.step(i, o); err != nil {
			return err
		}
		if p.em != orig {
			continue
		}
		if p.em.Len() > p.em.Cap() || p.em.Len() > c.Cap {
			return fmt.Errorf("after op %d: Len() = %d exceeds the capacity %d (Cap() = %d)", i, p.em.Len(), c.Cap, p.em.Cap())
		}
		// inside the window the bytes behind the emitted ones are untouched as well
		for j := p.em.Len(); j < c.Cap && j < p.em.Len()+16; j++ {
			if target[j] != 0xC3 {
				return fmt.Errorf("after op %d %v: byte %d of the target buffer, behind the %d emitted bytes, changed from c3 to %02x", i, o, j, p.em.Len(), target[j])
			}
		}
		for j := 0; j < 8; j++ {
			if big[j] != 0xC3 || big[8+c.Cap+j] != 0xC3 {
				return fmt.Errorf("after op %d %v: a byte outside the %d-byte target buffer was written (the target is a window into a larger array)", i, o, c.Cap)
			}
		}
	}
	if useClone && p.em != orig {
		if err := join(); err != nil {
			return err
		}
	}
	if !bytes.Equal(p.em.Bytes(), p.m.Bytes) {
		return fmt.Errorf("final image differs from the model at byte %d", firstDiff(p.em.Bytes(), p.m.Bytes))
	}
	if err := p.checkLabels(); err != nil {
		return err
	}
	// a refused label reference must not have been recorded: Finalize sees exactly the accepted references
	if err := c06Finalize(p, 1); err != nil {
		return fmt.Errorf("after the capacity-limited history: %v", err)
	}
	// dry-run emitter (nil target) against an unbounded real emitter fed the same history
	total := needOf(c.Ops) + 8
	dry := &emPair{em: asm.NewEmitter(nil, false), m: asmcat.NewModel(0, true, false)}
	real := asm.NewEmitter(make([]byte, total), false)
	// the same drawn part of the calls reaches the dry-run emitter through a dry-run clone that is appended back
	dryOrig := dry.em
	dryClone := c.CloneTo > c.CloneFrom && c.CloneTo <= len(c.Ops)
	dryJoin := func() error {
		var pan interface{}
		func() {
			defer func() { pan = recover() }()
			dryOrig.Append(dry.em)
		}()
		if pan != nil {
			return fmt.Errorf("dry-run emitter: Append of a dry-run clone failed: %v", pan)
		}
		dry.em = dryOrig
		return nil
	}
	for i, o := range c.Ops {
		if dryClone && i == c.CloneFrom {
			dry.em = dryOrig.Clone(nil)
		}
		if dryClone && i == c.CloneTo {
			if err := dryJoin(); err != nil {
				return err
			}
		}
		r1, p1 := asmcat.ApplyReal(real, o)
		if err := dry.step(i, o); err != nil {
			return fmt.Errorf("dry-run emitter: %v", err)
		}
		// dry.step already compared with the model; compare with the real emitter too (independent of the model)
		if p1 == nil && o.Kind == "label" {
			if v, ok := dry.em.GetLabel(o.Label); !ok || v != r1 {
				return fmt.Errorf("dry-run emitter: op %d Label(%q) recorded $%06x (%v), an emitter with a buffer returned $%06x", i, o.Label, v, ok, r1)
			}
		}
		if dry.em.PC() != real.PC() || dry.em.Flags() != real.Flags() {
			return fmt.Errorf("dry-run emitter after op %d %v: PC $%06x flags %02x, an emitter with a buffer has PC $%06x flags %02x", i, o, dry.em.PC(), byte(dry.em.Flags()), real.PC(), byte(real.Flags()))
		}
		if dry.em.Len() != 0 {
			return fmt.Errorf("dry-run emitter after op %d: Len() = %d, want 0", i, dry.em.Len())
		}
	}
	if dry.em != dryOrig {
		if err := dryJoin(); err != nil {
			return err
		}
		if dry.em.PC() != real.PC() || dry.em.Flags() != real.Flags() {
			return fmt.Errorf("dry-run emitter after appending its clone: PC $%06x flags %02x, an emitter with a buffer has PC $%06x flags %02x", dry.em.PC(), byte(dry.em.Flags()), real.PC(), byte(real.Flags()))
		}
	}
	for _, n := range allLabelNames {
		v1, ok1 := dry.em.GetLabel(n)
		v2, ok2 := real.GetLabel(n)
		if v1 != v2 || ok1 != ok2 {
			return fmt.Errorf("dry-run emitter: GetLabel(%q) = ($%06x,%v), an emitter with a buffer has ($%06x,%v)", n, v1, ok1, v2, ok2)
		}
	}
	// "measure code size before allocating": the tail of the history is first run on a dry-run clone of the emitter that
	// holds the head, the clone is discarded, and the same tail is then emitted for real on that emitter - which must accept
	// every call a directly fed emitter accepts and end up identical to it
	k := len(c.Ops) / 2
	if dryClone {
		k = c.CloneFrom
	}
	direct := asm.NewEmitter(make([]byte, total), false)
	par := asm.NewEmitter(make([]byte, total), false)
	for _, o := range c.Ops[:k] {
		asmcat.ApplyReal(direct, o)
		asmcat.ApplyReal(par, o)
	}
	for round := 0; round < 2; round++ { // measured twice: the second measurement must not see traces of the first
		meas := par.Clone(nil)
		for _, o := range c.Ops[k:] {
			asmcat.ApplyReal(meas, o)
		}
		if meas.PC() != real.PC() {
			return fmt.Errorf("measuring pass %d on a dry-run clone made after %d calls ends at PC $%06x, the program ends at $%06x", round+1, k, meas.PC(), real.PC())
		}
	}
	for i, o := range c.Ops[k:] {
		r1, p1 := asmcat.ApplyReal(direct, o)
		r2, p2 := asmcat.ApplyReal(par, o)
		if (p1 == nil) != (p2 == nil) || r1 != r2 {
			return fmt.Errorf("after two measuring passes on discarded dry-run clones: call %d %v returned ($%06x, panic %v) on the measured emitter and ($%06x, panic %v) on one that was never measured", k+i, o, r2, p2, r1, p1)
		}
	}
	if !bytes.Equal(direct.Bytes(), par.Bytes()) || direct.PC() != par.PC() || direct.Flags() != par.Flags() {
		return fmt.Errorf("after two measuring passes on discarded dry-run clones the emitter differs from one that was never measured (PC $%06x/$%06x, first differing byte %d)", par.PC(), direct.PC(), firstDiff(direct.Bytes(), par.Bytes()))
	}
	for _, n := range allLabelNames {
		v1, ok1 := par.GetLabel(n)
		v2, ok2 := direct.GetLabel(n)
		if v1 != v2 || ok1 != ok2 {
			return fmt.Errorf("after measuring passes on discarded dry-run clones: GetLabel(%q) = ($%06x,%v), never measured ($%06x,%v)", n, v1, ok1, v2, ok2)
		}
	}
	// the base address given again later (to the same value), then more code: the two kinds of emitter keep agreeing
	{
		withBuf, without := asm.NewEmitter(make([]byte, total+8), false), asm.NewEmitter(nil, false)
		for _, o := range c.Ops {
			asmcat.ApplyReal(withBuf, o)
			asmcat.ApplyReal(without, o)
		}
		b0 := withBuf.GetBase()
		for _, em := range []*asm.Emitter{withBuf, without} {
			em := em
			_ = rig.Safe(func() error {
				em.SetBase(b0)
				em.NOP()
				em.Label("probe after the second SetBase")
				em.NOP()
				return nil
			})
		}
		l1, ok1 := withBuf.GetLabel("probe after the second SetBase")
		l2, ok2 := without.GetLabel("probe after the second SetBase")
		if withBuf.PC() != without.PC() || l1 != l2 || ok1 != ok2 {
			return fmt.Errorf("after the history, SetBase($%06x) again, NOP, Label, NOP: an emitter with a buffer is at $%06x (label $%06x,%v), one without at $%06x (label $%06x,%v)", b0, withBuf.PC(), l1, ok1, without.PC(), l2, ok2)
		}
	}
	e1, e2 := direct.Finalize(), par.Finalize()
	if (e1 == nil) != (e2 == nil) || e1 == nil && !bytes.Equal(direct.Bytes(), par.Bytes()) { // (a failing Finalize patches whichever references it came to first)
		return fmt.Errorf("after measuring passes on discarded dry-run clones Finalize returns %v (never measured: %v), first differing byte %d", e2, e1, firstDiff(direct.Bytes(), par.Bytes()))
	}
	return nil
}

func init() {
	rig.RegisterReplay("C19", func(data []byte) error {
		var rf rig.ReplayFile
		if err := json.Unmarshal(data, &rf); err != nil {
			return err
		}
		var c c19Case
		if err := json.Unmarshal(rf.Case, &c); err != nil {
			return err
		}
		return c19Check(c)
	})
}

func TestC19(t *testing.T) {
	rig.Main(t, "C19", "rapid: an emitter history (instructions incl. wrong-width immediates, data, labels, references, base, assumptions) x a capacity solved to end exactly at, or 1-3 bytes inside, "+
		"a drawn instruction or data block (also 0 and the full size): every call must be accepted iff it fits, a refused call must leave bytes, length, PC and labels unchanged, Len <= Cap always; in a third of the cases some of the calls before the capacity edge are emitted into a Clone and appended; "+
		"the same history on an emitter without a target must report the same PC, label addresses and flags after every call as an emitter with a large buffer, with Len() == 0; the tail of the history is also measured twice on discarded Clone(nil) copies of the emitter that holds the head and then emitted for real on it; targets of exactly 64 KiB, 32 KiB, 65535 and 256 bytes are filled to the last byte; after every history both kinds of emitter get the same base address again and go on.  "+
		"Non-trivial = at least one call was refused for capacity; distinct = hash(case).",
		func(r *rig.Run) {
			ev := r.Ev
			// a target of exactly one 64 KiB bank filled to its last byte (and one of a page), then one byte too many
			if rig.Shard() == 0 {
				for _, size := range []int{65536, 256, 65535, 32768} {
					for _, listing := range []bool{false, true} {
						c := c19Case{Listing: listing, Cap: size, Ops: []asmcat.Op{{Kind: "data", V: uint32(size - 1), Seed: 9}, {Kind: "ins", Method: "NOP"},
							{Kind: "ins", Method: "NOP"}, {Kind: "label", Label: "l0"}, {Kind: "data", V: 1, Seed: 3}, {Kind: "ins", Method: "RTS"}}}
						r.CheckSweep("rapid", c, func() error { return c19Check(c) })
						ev.Case(true, rig.Hash64("full-bank", size, listing), func() interface{} { return c })
						ev.Class("target-of-exactly-64KiB-or-a-page-filled-to-its-last-byte")
					}
				}
			}
			r.Rapid("rapid", rig.Pick(40000, 150000), func(t *rapid.T) {
				c := c19Case{Listing: rapid.IntRange(0, 3).Draw(t, "listing") == 0}
				c.Ops = asmcat.GenHistory(t, asmcat.GenOpts{MaxOps: rig.Pick(30, 80), Labels: true, Data: true, Comments: true, SetBase: true, Assume: true, BadGuard: true})
				// capacity: solved against a drawn emitting op
				m := asmcat.NewModel(1<<30, false, false)
				var ends [][3]int // (offset before, need, op index) of every accepted emitting op
				for i, o := range c.Ops {
					before := len(m.Bytes)
					if ok, _ := m.Apply(o); ok && len(m.Bytes) > before {
						ends = append(ends, [3]int{before, len(m.Bytes) - before, i})
					}
				}
				capOp := len(c.Ops)
				size := len(m.Bytes)
				switch k := rapid.IntRange(0, 9).Draw(t, "cap-kind"); {
				case k == 0:
					c.Cap = 0
				case k == 1:
					c.Cap = size
				case len(ends) > 0:
					e := ends[rapid.IntRange(0, len(ends)-1).Draw(t, "cap-op")]
					// the buffer ends 0-3 bytes inside the call's bytes, or (data blocks) after whole 16-byte rows of it
					in := rapid.SampledFrom([]int{0, 1, 2, 3, 15, 16, 17, 31, 32, 33, 48, 1 << 20}).Draw(t, "cap-inside")
					if in >= e[1] {
						in = e[1] - 1
					}
					c.Cap = e[0] + in
					capOp = e[2]
				default:
					c.Cap = rapid.IntRange(0, size).Draw(t, "cap")
				}
				if capOp >= 1 && rapid.IntRange(0, 2).Draw(t, "via-clone") == 0 {
					// part of what precedes the capacity edge arrives through Clone + Append
					c.CloneFrom = rapid.IntRange(0, capOp-1).Draw(t, "clone-from")
					c.CloneTo = rapid.IntRange(c.CloneFrom+1, capOp).Draw(t, "clone-to")
					if needOf(c.Ops[:c.CloneTo]) <= c.Cap {
						ev.Class("bytes-before-the-capacity-edge-arrived-through-Clone+Append")
					}
				}
				r.Check(t, "rapid", c, func() error { return c19Check(c) })
				// classify with the bounded model
				bm := asmcat.NewModel(c.Cap, false, false)
				refused, later := 0, false
				for _, o := range c.Ops {
					ok, why := bm.Apply(o)
					if !ok && why == "capacity" {
						refused++
						if o.Kind == "data" {
							ev.Class("refused/data-block")
						} else {
							ev.Class(fmt.Sprintf("refused/%d-byte-instruction", o.Need()))
						}
					} else if ok && refused > 0 && o.Need() > 0 {
						later = true
					}
				}
				if later {
					ev.Class("smaller-call-accepted-after-a-refusal")
				}
				if c.Cap == 0 {
					ev.Class("capacity-0")
				}
				raw, _ := json.Marshal(c)
				ev.Case(refused > 0, rig.Hash64(raw), func() interface{} { return c })
			})
		})
}
