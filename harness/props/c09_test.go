package props

import (
	"bytes"
	"encoding/json"
	"fmt"
	"reflect"
	"sort"
	"sync"
	"testing"

	snes "github.com/alttpo/snes"
	"pgregory.net/rapid"

	"verif/harness/rig"
)

// C09 — ROM header parse/write round-trips and fields sit at their documented offsets.

type c09Case struct {
	Header  []byte `json:"header"` // 80 bytes placed at file offset $7FB0
	Banks   int    `json:"banks"`  // image has Banks*32 KiB + Tail bytes
	Tail    int    `json:"tail"`
	FlipPos int    `json:"flip_pos"` // 0..79
	FlipVal byte   `json:"flip_val"` // new value (forced to differ)
}

// documented layout: (path, cartridge address, size)
type hdrField struct {
	path string
	addr uint32
	size int
}

var c09Layout = []hdrField{
	{"MakerCode", 0xFFB0, 2}, {"GameCode", 0xFFB2, 4}, {"Fixed1", 0xFFB6, 6}, {"FlashSize", 0xFFBC, 1},
	{"ExpansionRAMSize", 0xFFBD, 1}, {"SpecialVersion", 0xFFBE, 1}, {"CoCPUType", 0xFFBF, 1},
	{"Title", 0xFFC0, 21}, {"MapMode", 0xFFD5, 1}, {"CartridgeType", 0xFFD6, 1}, {"ROMSize", 0xFFD7, 1},
	{"RAMSize", 0xFFD8, 1}, {"DestinationCode", 0xFFD9, 1}, {"OldMakerCode", 0xFFDA, 1}, {"MaskROMVersion", 0xFFDB, 1},
	{"ComplementCheckSum", 0xFFDC, 2}, {"CheckSum", 0xFFDE, 2},
	{"NativeVectors.Unused1", 0xFFE0, 4}, {"NativeVectors.COP", 0xFFE4, 2}, {"NativeVectors.BRK", 0xFFE6, 2},
	{"NativeVectors.ABORT", 0xFFE8, 2}, {"NativeVectors.NMI", 0xFFEA, 2}, {"NativeVectors.Unused2", 0xFFEC, 2},
	{"NativeVectors.IRQ", 0xFFEE, 2},
	{"EmulatedVectors.Unused1", 0xFFF0, 4}, {"EmulatedVectors.COP", 0xFFF4, 2}, {"EmulatedVectors.Unused2", 0xFFF6, 2},
	{"EmulatedVectors.ABORT", 0xFFF8, 2}, {"EmulatedVectors.NMI", 0xFFFA, 2}, {"EmulatedVectors.RESET", 0xFFFC, 2},
	{"EmulatedVectors.IRQBRK", 0xFFFE, 2},
}

// leafBytes returns path -> little-endian bytes of every exported leaf field of the header.
func leafBytes(h *snes.Header) map[string][]byte {
	out := map[string][]byte{}
	var walk func(prefix string, v reflect.Value)
	walk = func(prefix string, v reflect.Value) {
		for i := 0; i < v.NumField(); i++ {
			sf := v.Type().Field(i)
			if sf.PkgPath != "" {
				continue // unexported
			}
			f := v.Field(i)
			name := prefix + sf.Name
			switch f.Kind() {
			case reflect.Struct:
				walk(name+".", f)
			case reflect.Array:
				b := make([]byte, f.Len())
				for j := range b {
					b[j] = byte(f.Index(j).Uint())
				}
				out[name] = b
			case reflect.Uint8, reflect.Uint16, reflect.Uint32, reflect.Uint64:
				n := int(f.Type().Size())
				b := make([]byte, n)
				u := f.Uint()
				for j := 0; j < n; j++ {
					b[j] = byte(u >> (8 * uint(j)))
				}
				out[name] = b
			default:
				out[name] = []byte(fmt.Sprint(f.Interface()))
			}
		}
	}
	walk("", reflect.ValueOf(h).Elem())
	return out
}

func c09Version(hdr []byte) int {
	if hdr[0xFFDA-0xFFB0] == 0x33 {
		return 3
	}
	if hdr[0xFFD4-0xFFB0] == 0 {
		return 2
	}
	return 1
}

var (
	c09BaseOnce sync.Once
	c09Base     []byte
)

func c09Image(c c09Case) []byte {
	c09BaseOnce.Do(func() {
		c09Base = make([]byte, 8*0x8000+0x8000)
		for i := range c09Base {
			c09Base[i] = rig.Mix(0xC09, uint32(i))
		}
	})
	img := make([]byte, c.Banks*0x8000+c.Tail)
	copy(img, c09Base)
	copy(img[0x7FB0:0x8000], c.Header)
	return img
}

func c09CheckFields(hdr []byte, h *snes.Header) error {
	ver := c09Version(hdr)
	if h.HeaderVersion() != ver {
		return fmt.Errorf("HeaderVersion() = %d, want %d (byte $FFDA=%02x, byte $FFD4=%02x)", h.HeaderVersion(), ver, hdr[0x2A], hdr[0x24])
	}
	leaves := leafBytes(h)
	if len(leaves) != len(c09Layout) {
		var names []string
		for k := range leaves {
			names = append(names, k)
		}
		sort.Strings(names)
		return fmt.Errorf("header has %d exported leaf fields %v, documented layout has %d", len(leaves), names, len(c09Layout))
	}
	for _, f := range c09Layout {
		got, ok := leaves[f.path]
		if !ok {
			return fmt.Errorf("header has no field %s", f.path)
		}
		want := hdr[f.addr-0xFFB0 : int(f.addr-0xFFB0)+f.size]
		if ver == 1 && f.addr < 0xFFC0 {
			want = make([]byte, f.size)
		}
		if !bytes.Equal(got, want) {
			return fmt.Errorf("field %s = % x, want % x (little-endian bytes at $%04X, header version %d)", f.path, got, want, f.addr, ver)
		}
	}
	return nil
}

func c09Check(c c09Case) error {
	if len(c.Header) != 80 || c.Banks < 1 {
		return fmt.Errorf("malformed case")
	}
	img := c09Image(c)
	orig := append([]byte(nil), img...)
	r, err := snes.NewROM("case", img)
	if err != nil {
		return fmt.Errorf("NewROM: %v", err)
	}
	// (3)+(4) documented offsets and version rule
	if err := c09CheckFields(c.Header, &r.Header); err != nil {
		return err
	}
	// (1) read + write back leaves the image unchanged - whatever read-only questions were asked in between
	before := leafBytes(&r.Header)
	_ = r.Header.Score(0x7FB0)
	_ = r.Header.Score(0xFFB0)
	_ = r.Header.HeaderVersion()
	_ = snes.RegionNames[r.Header.DestinationCode]
	if after := leafBytes(&r.Header); !reflect.DeepEqual(before, after) {
		for k, v := range before {
			if !bytes.Equal(v, after[k]) {
				return fmt.Errorf("asking the parsed header for its Score / HeaderVersion changed field %s from [% x] to [% x]", k, v, after[k])
			}
		}
	}
	if err := r.WriteHeader(); err != nil {
		return fmt.Errorf("ROM.WriteHeader: %v", err)
	}
	if !bytes.Equal(r.Contents, orig) {
		for i := range orig {
			if r.Contents[i] != orig[i] {
				return fmt.Errorf("ReadHeader+WriteHeader changed image byte at file offset $%X (cartridge $%04X): %02x -> %02x (version %d)", i, 0x8000+i&0x7FFF, orig[i], r.Contents[i], c09Version(c.Header))
			}
		}
		return fmt.Errorf("image length changed")
	}
	// (1b) the same ROM object again: change one header byte in the image, re-read, write back -> the changed image must survive
	{
		pos := c.FlipPos % 80
		nv := c.FlipVal
		if nv == c.Header[pos] {
			nv ^= 0x55
		}
		want := append([]byte(nil), orig...)
		want[0x7FB0+pos] = nv
		r.Contents[0x7FB0+pos] = nv
		if err := r.ReadHeader(); err != nil {
			return fmt.Errorf("second ReadHeader: %v", err)
		}
		// the re-read header must describe the edited bytes (version included), not the first parse
		edited := append([]byte(nil), c.Header...)
		edited[pos] = nv
		if err := c09CheckFields(edited, &r.Header); err != nil {
			return fmt.Errorf("after editing byte $%04X to %02x and re-reading on the same ROM object: %v", 0xFFB0+pos, nv, err)
		}
		if err := r.WriteHeader(); err != nil {
			return fmt.Errorf("second WriteHeader: %v", err)
		}
		if !bytes.Equal(r.Contents, want) {
			i := firstDiff(r.Contents, want)
			return fmt.Errorf("second ReadHeader+WriteHeader on the same ROM object changed image byte at cartridge $%04X: %02x -> %02x (byte $%04X had been edited to %02x before re-reading)", 0x8000+i&0x7FFF, want[i], r.Contents[i], 0xFFB0+pos, nv)
		}
		// back to the original image for the remaining checks
		r.Contents[0x7FB0+pos] = c.Header[pos]
		if err := r.ReadHeader(); err != nil {
			return fmt.Errorf("third ReadHeader: %v", err)
		}
	}
	// (1d) write-back really writes: after the image's header bytes were overwritten by something else (the part every
	// version writes, $FFC0-$FFFF), WriteHeader of the unchanged parsed header restores them; and after HeaderOffset
	// was changed it writes the header there
	{
		for i := 0x10; i < 0x50; i++ {
			r.Contents[0x7FB0+i] ^= 0x5A
		}
		if err := r.WriteHeader(); err != nil {
			return fmt.Errorf("WriteHeader after the image's header bytes were overwritten: %v", err)
		}
		if !bytes.Equal(r.Contents, orig) {
			i := firstDiff(r.Contents, orig)
			return fmt.Errorf("the header bytes $FFC0-$FFFF of the image were overwritten after reading; WriteHeader of the parsed header did not restore them: file offset $%X holds %02x, the header says %02x", i, r.Contents[i], orig[i])
		}
		// the same with the sixteen bytes $FFB0-$FFBF changed as well (say, through a bus writer): a version-1 write-back
		// leaves them as they are now, a version-2/3 write-back puts the parsed header's bytes back
		want := append([]byte(nil), orig...)
		for i := 0; i < 0x50; i++ {
			r.Contents[0x7FB0+i] ^= 0xA6
			if i < 0x10 && c09Version(c.Header) <= 1 {
				want[0x7FB0+i] ^= 0xA6
			}
		}
		if err := r.WriteHeader(); err != nil {
			return fmt.Errorf("WriteHeader after the image's header bytes were overwritten: %v", err)
		}
		if !bytes.Equal(r.Contents, want) {
			i := firstDiff(r.Contents, want)
			return fmt.Errorf("all 80 header bytes of the image were overwritten after reading; after WriteHeader of the parsed header (version %d) file offset $%X holds %02x, want %02x (a version-1 write-back leaves $FFB0-$FFBF as they are, later versions restore them)", c09Version(c.Header), i, r.Contents[i], want[i])
		}
		copy(r.Contents, orig)
		for _, off := range []uint32{0x81B0, 0xFFB0} {
			if int(off)+0x50 > len(orig) {
				continue
			}
			save := append([]byte(nil), r.Contents[off:off+0x50]...)
			r.HeaderOffset = off
			err := rig.Safe(func() error { return r.WriteHeader() })
			r.HeaderOffset = 0x7FB0
			if err != nil {
				return fmt.Errorf("WriteHeader after HeaderOffset was set to $%X: %v", off, err)
			}
			if !bytes.Equal(r.Contents[off+0x10:off+0x50], c.Header[0x10:]) {
				return fmt.Errorf("after HeaderOffset was set to $%X, WriteHeader did not store the header there: bytes at $%X are [% x], the header's are [% x]", off, off+0x10, r.Contents[off+0x10:off+0x20], c.Header[0x10:0x20])
			}
			copy(r.Contents[off:off+0x50], save)
			if !bytes.Equal(r.Contents, orig) {
				return fmt.Errorf("WriteHeader with HeaderOffset $%X changed image byte at file offset $%X outside the header", off, firstDiff(r.Contents, orig))
			}
			break
		}
	}
	// (1e) re-reading really reads: after the parsed header was cleared by the caller (ROM.Header is an exported field),
	// ReadHeader on the same object brings every field back from the unchanged image
	{
		r.Header = snes.Header{}
		if err := r.ReadHeader(); err != nil {
			return fmt.Errorf("ReadHeader after the parsed header was cleared: %v", err)
		}
		if err := c09CheckFields(c.Header, &r.Header); err != nil {
			return fmt.Errorf("after ROM.Header was cleared and the unchanged image was re-read on the same ROM object: %v", err)
		}
		if err := r.WriteHeader(); err != nil {
			return fmt.Errorf("WriteHeader after re-reading: %v", err)
		}
		if !bytes.Equal(r.Contents, orig) {
			i := firstDiff(r.Contents, orig)
			return fmt.Errorf("ROM.Header cleared, image re-read, written back: image byte at cartridge $%04X changed %02x -> %02x", 0x8000+i&0x7FFF, orig[i], r.Contents[i])
		}
	}
	// (1f) a write-back that fails (HeaderOffset beyond the image: error or panic, recovered by the caller) changes
	// nothing and leaves the object usable: the next edit + re-read + write-back round trip works as before
	{
		r.HeaderOffset = uint32(len(orig)) + 0x1000
		_ = rig.Safe(func() error { return r.WriteHeader() })
		r.HeaderOffset = 0x7FB0
		if !bytes.Equal(r.Contents, orig) {
			return fmt.Errorf("a failing WriteHeader (HeaderOffset beyond the image) changed the image at file offset $%X", firstDiff(r.Contents, orig))
		}
		pos := (c.FlipPos + 41) % 80
		nv := c.FlipVal ^ 0x3C
		if nv == c.Header[pos] {
			nv ^= 0x55
		}
		want := append([]byte(nil), orig...)
		want[0x7FB0+pos] = nv
		r.Contents[0x7FB0+pos] = nv
		if err := r.ReadHeader(); err != nil {
			return fmt.Errorf("ReadHeader after a failed WriteHeader: %v", err)
		}
		if err := r.WriteHeader(); err != nil {
			return fmt.Errorf("WriteHeader after a failed WriteHeader: %v", err)
		}
		if !bytes.Equal(r.Contents, want) {
			i := firstDiff(r.Contents, want)
			return fmt.Errorf("after a failed WriteHeader (HeaderOffset beyond the image, recovered), edit + ReadHeader + WriteHeader changed image byte at cartridge $%04X: %02x -> %02x", 0x8000+i&0x7FFF, want[i], r.Contents[i])
		}
		r.Contents[0x7FB0+pos] = c.Header[pos]
		if err := r.ReadHeader(); err != nil {
			return fmt.Errorf("ReadHeader: %v", err)
		}
	}
	// (1g) the exported fields are the interface: a ROM put together by the caller (struct literal with the contents,
	// the header location and a Header parsed with Header.ReadHeader) writes that header back to where it came from
	{
		var h snes.Header
		if err := h.ReadHeader(bytes.NewReader(c.Header)); err != nil {
			return fmt.Errorf("Header.ReadHeader: %v", err)
		}
		img3 := append([]byte(nil), orig...)
		r3 := &snes.ROM{Name: "literal", Contents: img3, HeaderOffset: 0x7FB0, Header: h}
		if err := rig.Safe(func() error { return r3.WriteHeader() }); err != nil {
			return fmt.Errorf("WriteHeader on a ROM built as a struct literal: %v", err)
		}
		if !bytes.Equal(img3, orig) {
			i := firstDiff(img3, orig)
			return fmt.Errorf("a ROM built as a struct literal (contents, HeaderOffset $7FB0, Header parsed with Header.ReadHeader): WriteHeader changed image byte at cartridge $%04X: %02x -> %02x (version %d)", 0x8000+i&0x7FFF, orig[i], img3[i], c09Version(c.Header))
		}
	}
	// (1c) the header may sit elsewhere in the image (HiROM $FFB0, images with a 512-byte copier header): ROM.HeaderOffset
	for _, off := range []uint32{0xFFB0, 0x81B0} {
		if int(off)+0x50 > len(orig) {
			continue
		}
		img2 := append([]byte(nil), orig...)
		copy(img2[off:off+0x50], c.Header)
		// the bytes at the default location must differ from the header under test, or a write that lands there goes unnoticed
		for i := 0; i < 0x50; i++ {
			img2[0x7FB0+i] ^= 0xA5
		}
		want2 := append([]byte(nil), img2...)
		r2, err := snes.NewROM("offset", img2)
		if err != nil {
			return fmt.Errorf("NewROM: %v", err)
		}
		r2.HeaderOffset = off
		if err := r2.ReadHeader(); err != nil {
			return fmt.Errorf("ReadHeader at offset $%X: %v", off, err)
		}
		if err := c09CheckFields(c.Header, &r2.Header); err != nil {
			return fmt.Errorf("header at file offset $%X: %v", off, err)
		}
		if err := rig.Safe(func() error { return r2.WriteHeader() }); err != nil {
			return fmt.Errorf("WriteHeader at offset $%X: %v", off, err)
		}
		if !bytes.Equal(r2.Contents, want2) {
			i := firstDiff(r2.Contents, want2)
			return fmt.Errorf("header at file offset $%X (version %d): ReadHeader+WriteHeader changed image byte at file offset $%X: %02x -> %02x", off, c09Version(c.Header), i, want2[i], r2.Contents[i])
		}
	}
	// (2) serialise -> 80 bytes -> parse back -> identical header
	var buf bytes.Buffer
	if err := r.Header.WriteHeader(&buf); err != nil {
		return fmt.Errorf("Header.WriteHeader: %v", err)
	}
	if buf.Len() != 80 {
		return fmt.Errorf("Header.WriteHeader produced %d bytes, want 80", buf.Len())
	}
	var h2 snes.Header
	if err := h2.ReadHeader(bytes.NewReader(buf.Bytes())); err != nil {
		return fmt.Errorf("re-parse of serialised header: %v", err)
	}
	if !reflect.DeepEqual(h2, r.Header) {
		return fmt.Errorf("serialised header parses back differently: %+v vs %+v", h2, r.Header)
	}
	// (2b) serialising appends: a buffer that already holds data (records written one after the other) keeps it
	{
		pre := make([]byte, 1+int(c.FlipVal)%100)
		for i := range pre {
			pre[i] = rig.Mix(0xC09, uint32(i)) | 0x80
		}
		var buf2 bytes.Buffer
		buf2.Write(pre)
		if err := r.Header.WriteHeader(&buf2); err != nil {
			return fmt.Errorf("Header.WriteHeader into a non-empty buffer: %v", err)
		}
		got := buf2.Bytes()
		if len(got) != len(pre)+80 || !bytes.Equal(got[:len(pre)], pre) {
			return fmt.Errorf("Header.WriteHeader into a buffer already holding %d bytes: buffer now has %d bytes and its earlier content changed at byte %d (serialising must append 80 bytes)", len(pre), len(got), firstDiff(got, pre))
		}
		if !bytes.Equal(got[len(pre):], buf.Bytes()) {
			return fmt.Errorf("Header.WriteHeader appended [% x] to a non-empty buffer but produces [% x] into an empty one", got[len(pre):], buf.Bytes())
		}
	}
	// the exported Header.ReadHeader parses from the reader's current position (e.g. one reader over the whole image)
	{
		whole := bytes.NewReader(orig)
		if _, err := whole.Seek(0x7FB0, 0); err != nil {
			return err
		}
		var h4 snes.Header
		if err := h4.ReadHeader(whole); err != nil {
			return fmt.Errorf("ReadHeader from a reader positioned at $7FB0: %v", err)
		}
		if err := c09CheckFields(c.Header, &h4); err != nil {
			return fmt.Errorf("Header.ReadHeader on a reader positioned at file offset $7FB0 of the image: %v", err)
		}
		if pos, _ := whole.Seek(0, 1); pos != 0x7FB0+0x50 {
			return fmt.Errorf("Header.ReadHeader consumed %d bytes of the reader, want 80", pos-0x7FB0)
		}
	}
	// (5) one-byte change -> exactly the covering field changes
	pos := c.FlipPos % 80
	nv := c.FlipVal
	if nv == c.Header[pos] {
		nv ^= 0x55
	}
	h3bytes := append([]byte(nil), c.Header...)
	h3bytes[pos] = nv
	var h3 snes.Header
	if err := h3.ReadHeader(bytes.NewReader(h3bytes)); err != nil {
		return fmt.Errorf("parse of modified header: %v", err)
	}
	if err := c09CheckFields(h3bytes, &h3); err != nil {
		return fmt.Errorf("after changing byte $%04X: %v", 0xFFB0+pos, err)
	}
	v0, v1 := c09Version(c.Header), c09Version(h3bytes)
	if v0 == v1 {
		after := leafBytes(&h3)
		var changed []string
		for k, v := range before {
			if !bytes.Equal(v, after[k]) {
				changed = append(changed, k)
			}
		}
		sort.Strings(changed)
		addr := uint32(0xFFB0 + pos)
		want := ""
		for _, f := range c09Layout {
			if addr >= f.addr && addr < f.addr+uint32(f.size) {
				want = f.path
			}
		}
		if v0 == 1 && addr < 0xFFC0 {
			if len(changed) != 0 {
				return fmt.Errorf("version-1 header: changing byte $%04X changed fields %v, want none", addr, changed)
			}
		} else if len(changed) != 1 || changed[0] != want {
			return fmt.Errorf("changing byte $%04X (%02x -> %02x) changed fields %v, want exactly [%s]", addr, c.Header[pos], nv, changed, want)
		}
	}
	return nil
}

func c09Gen(t *rapid.T) c09Case {
	hdr := rapid.SliceOfN(rapid.Byte(), 80, 80).Draw(t, "header")
	switch rapid.IntRange(0, 6).Draw(t, "version-bias") {
	case 6: // both markers at once: $33 wins
		hdr[0x2A] = 0x33
		hdr[0x24] = 0
	case 0, 1:
		hdr[0x2A] = 0x33
	case 2, 3:
		hdr[0x24] = 0
		if hdr[0x2A] == 0x33 {
			hdr[0x2A] = 0x32
		}
	case 4:
		if hdr[0x24] == 0 {
			hdr[0x24] = 0x20
		}
		if hdr[0x2A] == 0x33 {
			hdr[0x2A] = 0x34
		}
	}
	c := c09Case{Header: hdr, Banks: 1}
	if rapid.IntRange(0, 1).Draw(t, "big") == 0 {
		c.Banks = rapid.IntRange(1, 8).Draw(t, "banks")
	}
	if rapid.Bool().Draw(t, "has-tail") {
		c.Tail = rapid.IntRange(1, 0x7FFF).Draw(t, "tail")
	}
	c.FlipPos = rapid.IntRange(0, 79).Draw(t, "flip-pos")
	c.FlipVal = rapid.Byte().Draw(t, "flip-val")
	if rapid.IntRange(0, 4).Draw(t, "flip-marker") == 0 { // edit a version marker so that the version changes on re-read
		if rapid.Bool().Draw(t, "flip-which") {
			c.FlipPos, c.FlipVal = 0x2A, 0x33
			if hdr[0x2A] == 0x33 {
				c.FlipVal = 0x00
			}
		} else {
			c.FlipPos, c.FlipVal = 0x24, 0x00
			if hdr[0x24] == 0 {
				c.FlipVal = 0x41
			}
		}
	}
	return c
}

func init() {
	rig.RegisterReplay("C09", func(data []byte) error {
		var rf rig.ReplayFile
		if err := json.Unmarshal(data, &rf); err != nil {
			return err
		}
		var c c09Case
		if err := json.Unmarshal(rf.Case, &c); err != nil {
			return err
		}
		return c09Check(c)
	})
}

func TestC09(t *testing.T) {
	rig.Main(t, "C09", "rapid: 80 random header bytes (versions 1/2/3 forced about one third each) inside images of 1-8 banks plus optional tail; "+
		"oracles: image unchanged after NewROM+WriteHeader, 80-byte serialisation parses back DeepEqual, every exported leaf field equals the "+
		"little-endian bytes at its documented address (independent table), version rule, and a drawn single-byte change alters exactly the covering field; the same ROM object is re-read after ROM.Header was cleared, a write-back fails (HeaderOffset beyond the image) before another round trip, and a ROM put together as a struct literal writes its header back; all 80 header bytes of the image are overwritten between reading and writing back; headers of each version with one field at a time blank (spaces, zeroes, $FF) are swept. "+
		"Every case is non-trivial; distinct = hash(header bytes, size, flip).",
		func(r *rig.Run) {
			ev := r.Ev
			// every flip position once on three fixed headers (deterministic part)
			for ver := 1; ver <= 3; ver++ {
				for pos := 0; pos < 80; pos++ {
					hdr := make([]byte, 80)
					for i := range hdr {
						hdr[i] = rig.Mix(uint32(rig.Seed())+uint32(ver), uint32(i)) | 1
					}
					if hdr[0x2A] == 0x33 {
						hdr[0x2A] = 0x35
					}
					if ver == 3 {
						hdr[0x2A] = 0x33
					}
					if ver == 2 {
						hdr[0x24] = 0
					}
					c := c09Case{Header: hdr, Banks: 1, FlipPos: pos, FlipVal: hdr[pos] + 1}
					r.CheckSweep(fmt.Sprintf("flip-v%d", ver), c, func() error { return c09Check(c) })
					ev.Case(true, rig.Hash64(c.Header, c.Banks, c.Tail, c.FlipPos, c.FlipVal), func() interface{} { return c })
					ev.Class(fmt.Sprintf("systematic-flip/v%d", ver))
				}
			}
			// the four combinations of the two version markers, each with the neighbouring values
			for _, mk := range []byte{0x32, 0x33, 0x34, 0x00} {
				for _, t20 := range []byte{0x00, 0x01, 0x20, 0xFF} {
					hdr := make([]byte, 80)
					for i := range hdr {
						hdr[i] = rig.Mix(uint32(rig.Seed())+99, uint32(i)) | 1
					}
					hdr[0x2A], hdr[0x24] = mk, t20
					c := c09Case{Header: hdr, Banks: 1, FlipPos: 0x3A, FlipVal: 0x5A}
					r.CheckSweep("markers", c, func() error { return c09Check(c) })
					ev.Case(true, rig.Hash64(c.Header, c.Banks, c.Tail, c.FlipPos, c.FlipVal), func() interface{} { return c })
					ev.Class("systematic-version-markers")
				}
			}
			// headers that consist of one repeated byte (erased flash is all $FF, an unprogrammed image all $00), and such a
			// header with one other byte in it
			for _, fill := range []byte{0x00, 0xFF, 0x33, 0x20, 0x01} {
				for _, odd := range []int{-1, 0, 0x24, 0x2A, 0x4F} {
					hdr := bytes.Repeat([]byte{fill}, 80)
					if odd >= 0 {
						hdr[odd] ^= 0x81
					}
					c := c09Case{Header: hdr, Banks: 1, FlipPos: 0x15, FlipVal: fill ^ 0x40}
					r.CheckSweep("constant-fill", c, func() error { return c09Check(c) })
					ev.Case(true, rig.Hash64(c.Header, c.Banks, c.Tail, c.FlipPos, c.FlipVal), func() interface{} { return c })
					ev.Class("systematic-constant-fill-headers")
				}
			}
			// one field at a time filled with a value that means "blank" to somebody (ASCII spaces, zeroes, erased flash), in
			// headers of each version
			for ver := 1; ver <= 3; ver++ {
				for fi, f := range c09Layout {
					for _, fill := range []byte{0x20, 0x00, 0xFF} {
						hdr := make([]byte, 80)
						for i := range hdr {
							hdr[i] = rig.Mix(uint32(0xB1A4C+ver), uint32(i))
						}
						switch ver { // version markers: $FFDA and $FFD4
						case 1:
							hdr[0x2A], hdr[0x24] = 0x01, 0x41
						case 2:
							hdr[0x2A], hdr[0x24] = 0x01, 0x00
						case 3:
							hdr[0x2A], hdr[0x24] = 0x33, 0x41
						}
						if f.addr == 0xFFDA {
							continue // (the field is a version marker: covered by the marker sweep above)
						}
						n := f.size
						if f.path == "Title" {
							n = 20 // (its last byte is the other version marker)
						}
						for i := 0; i < n; i++ {
							hdr[int(f.addr-0xFFB0)+i] = fill
						}
						c := c09Case{Header: hdr, Banks: 1, FlipPos: (fi*7 + 3) % 80, FlipVal: fill ^ 0x11}
						r.CheckSweep("blank-field", c, func() error { return c09Check(c) })
						ev.Case(true, rig.Hash64(c.Header, c.Banks, c.Tail, c.FlipPos, c.FlipVal), func() interface{} { return c })
						ev.Class("systematic-one-field-blank")
					}
				}
			}
			r.Rapid("rapid", rig.Pick(40000, 200000), func(t *rapid.T) {
				c := c09Gen(t)
				r.Check(t, "rapid", c, func() error { return c09Check(c) })
				ev.Case(true, rig.Hash64(c.Header, c.Banks, c.Tail, c.FlipPos, c.FlipVal), func() interface{} { return c })
				ev.Class(fmt.Sprintf("version%d", c09Version(c.Header)))
				pos := c.FlipPos
				for _, f := range c09Layout {
					if uint32(0xFFB0+pos) >= f.addr && uint32(0xFFB0+pos) < f.addr+uint32(f.size) {
						ev.Class("flip/" + f.path)
					}
				}
				if c.Banks > 1 {
					ev.Class("multi-bank")
				}
				if c.Tail > 0 {
					ev.Class("tail")
				}
			})
		})
}
