package props

import (
	"bytes"
	"encoding/json"
	"fmt"
	"io"
	"os"
	"path/filepath"
	"sync"
	"testing"
	"time"

	snes "github.com/alttpo/snes"
	"github.com/alttpo/snes/asm"
	"github.com/alttpo/snes/color15"
	"github.com/alttpo/snes/emulator"
	"github.com/alttpo/snes/emulator/cpu65c816"
	"github.com/alttpo/snes/emulator/memory"
	"github.com/alttpo/snes/mapping/util"
	"pgregory.net/rapid"

	"verif/harness/asmcat"
	"verif/harness/rig"
	"verif/harness/wdc"
)

// C18 — separate emulator, emitter and ROM instances never interfere across goroutines.

type c18Work struct {
	Kind string      `json:"kind"` // system, sysmap, pri, alt, emitter, rom, pure
	Seed uint32      `json:"seed"`
	N    int         `json:"n"`
	Ops  []asmcat.Op `json:"ops,omitempty"`
}

type c18Case struct {
	Work []c18Work `json:"work"`
}

func c18State(seed uint32) rig.Raw {
	a := wdc.Arch{A: uint16(rig.Mix(seed, 1))<<8 | uint16(rig.Mix(seed, 2)), X: uint16(rig.Mix(seed, 3)), Y: uint16(rig.Mix(seed, 4)),
		S: 0x01F0, D: uint16(rig.Mix(seed, 5)) << 8, PC: uint16(rig.Mix(seed, 6))<<8 | 0x10, DBR: rig.Mix(seed, 7), K: rig.Mix(seed, 8), P: rig.Mix(seed, 9) &^ wdc.FD}
	a.E = rig.Mix(seed, 10)&3 == 0
	return rig.ArchToRaw(a)
}

// c18Hooks registers program-counter hooks the way a caller does who was handed a CPU by the library: it keeps the
// callback table the CPU already has (creating one only if there is none) and adds its own entries; the hooks count
// into the workload's own counter.  The first address is the one the workload starts at, so at least one hook fires.
func c18Hooks(c *cpu65c816.CPU, seed uint32, hits *int) {
	if c.OnPC == nil {
		c.OnPC = map[uint32]func(){}
	}
	st := c18State(seed)
	start := uint32(st.RK)<<16 | uint32(st.PC)
	for k := uint32(0); k < 6; k++ {
		c.OnPC[start&0xff0000|(start+k*k)&0xffff] = func() { *hits++ }
	}
}

// c18WDMPrelude places eight WDM instructions (operands from the seed) where the workload's program starts, so that every
// CPU workload with a WDM hook takes it several times right after the start.
func c18WDMPrelude(mem *rig.Mem, seed uint32) {
	st := c18State(seed)
	for k := uint16(0); k < 8; k++ {
		a := uint32(st.RK)<<16 | uint32(st.PC+2*k)
		mem.Poke(a, 0x42)
		mem.Poke(uint32(st.RK)<<16|uint32(st.PC+2*k+1), rig.Mix(seed, uint32(k)))
	}
}

type digest struct{ h uint64 }

func (d *digest) add(parts ...interface{}) { d.h = rig.Hash64(d.h, rig.Hash64(parts...)) }

func memDigest(d *digest, m *rig.Mem) {
	var sum uint64
	for a, v := range m.Over {
		sum += rig.Hash64(a, v) // order independent
	}
	d.add(len(m.Over), sum)
}

// c18Run executes one workload on freshly created instances and returns a digest of every observable.
func c18Run(w c18Work, rendezvous func()) (h uint64, err error) {
	// ready() is called once the workload's instances exist: in the concurrent phase it blocks until every workload
	// of the round is set up, so that the measured sections really run at the same time
	called := false
	ready := func() {
		if !called {
			called = true
			if rendezvous != nil {
				rendezvous()
			}
		}
	}
	defer ready()
	defer func() {
		if p := recover(); p != nil {
			err = fmt.Errorf("workload %s(seed %d) panicked: %v", w.Kind, w.Seed, p)
		}
	}()
	var d digest
	switch w.Kind {
	case "system": // emulator.System with a trace logger on a flat sparse bus, program = pseudo-random image
		sys := &emulator.System{}
		cpu := rig.NewPrimaryOn(&sys.CPU, &sys.Bus)
		mem := rig.NewMem(w.Seed)
		cpu.SetMem(mem)
		cpu.LoadRaw(c18State(w.Seed))
		var log bytes.Buffer
		sys.Logger = &log
		var wdm []byte
		sys.CPU.OnWDM = func(b byte) { wdm = append(wdm, b) }
		hits := 0
		c18WDMPrelude(mem, w.Seed)
		ready()
		c18Hooks(&sys.CPU, w.Seed, &hits)
		ret := sys.RunUntil(0xEE1234, uint64(w.N))
		d.add(ret, fmt.Sprint(cpu.Raw()), log.Bytes(), wdm, hits)
		memDigest(&d, mem)
	case "sysmap": // the real memory map of CreateEmulator
		sys := &emulator.System{}
		if e := sys.CreateEmulator(); e != nil {
			return 0, e
		}
		for i := 0; i < 0x10000; i++ {
			sys.ROM[i] = rig.Mix(w.Seed, uint32(i))
			sys.SRAM[i] = rig.Mix(w.Seed^1, uint32(i))
			sys.WRAM[i] = rig.Mix(w.Seed^2, uint32(i))
		}
		// an extra cartridge chip of this System's own: a read-only memory.ROM device (sizes and load addresses differ
		// from workload to workload)
		chip := make([]byte, 0x100+int(w.Seed&0xFF)*16)
		for i := range chip {
			chip[i] = rig.Mix(w.Seed^3, uint32(i))
		}
		chipAt := 0x400000 + (w.Seed>>8&0xF)<<16
		if e := sys.Bus.Attach(memory.NewROM(chip, chipAt), "chip", chipAt, chipAt+uint32(len(chip))-1); e != nil {
			return 0, e
		}
		ready()
		for i := 0; i < w.N; i++ {
			bank := []uint32{0x00, 0x01, 0x80, 0x81, 0x70, 0xF1, 0x7E, 0x7F, 0x3F, 0xBF}[rig.Mix(w.Seed, uint32(3*i))%10]
			off := uint32(rig.Mix(w.Seed, uint32(3*i+1)))<<8 | uint32(rig.Mix(w.Seed, uint32(3*i+2)))
			a := bank<<16 | off
			if bank != 0x70 && bank != 0xF1 && bank != 0x7E && bank != 0x7F && off >= 0x2000 && off < 0x8000 {
				off &= 0x1FFF
				a = bank<<16 | off
			}
			if (bank == 0x70 || bank == 0xF1) && off >= 0x8000 {
				a &^= 0x8000
			}
			v := sys.Bus.EaRead(a)
			sys.Bus.EaWrite(a, v+byte(i))
			d.add(a, v)
			// the memory-mapped I/O window of the same System (its own latched register file)
			io := uint32(rig.Mix(w.Seed, uint32(5*i))&0x3f)<<16 | 0x2100 + uint32(rig.Mix(w.Seed, uint32(5*i+1)))
			iv := sys.Bus.EaRead(io)
			sys.Bus.EaWrite(io, iv+rig.Mix(w.Seed, uint32(i))+1)
			d.add(io, iv)
			ca := chipAt + uint32(rig.Mix(w.Seed, uint32(7*i)))%uint32(len(chip))
			d.add(sys.Bus.EaRead(ca), sys.Bus.EaRead24_wrap(byte(ca>>16), uint16(ca)&0xFFF0))
		}
		d.add(sys.ROM[:0x10000], sys.SRAM[:], sys.WRAM[:0x10000])
	case "pri", "alt":
		var cpu rig.CPU
		if w.Kind == "pri" {
			cpu = rig.NewPrimary()
		} else {
			cpu = rig.NewAlt()
		}
		mem := rig.NewMem(w.Seed)
		cpu.SetMem(mem)
		cpu.LoadRaw(c18State(w.Seed))
		hits := 0
		c18WDMPrelude(mem, w.Seed)
		var wdmSeen []byte
		switch c := cpu.(type) {
		case *rig.Primary:
			c.C.OnWDM = func(b byte) { wdmSeen = append(wdmSeen, b) }
			defer func() { c.C.OnWDM = nil }()
		case *rig.Alt:
			c.C.OnWDM = func(b byte) { wdmSeen = append(wdmSeen, b) }
			defer func() { c.C.OnWDM = nil }()
		}
		defer func() { d.add(wdmSeen) }()
		ready()
		if pc, ok := cpu.(*rig.Primary); ok {
			c18Hooks(pc.C, w.Seed, &hits)
			defer func() { pc.C.OnPC = nil }()
		}
		for i := 0; i < w.N; i++ {
			if w.Kind == "pri" {
				d.add(cpu.Disasm())
			} else {
				var b bytes.Buffer
				cpu.(*rig.Alt).C.DisassembleCurrentPC(&b)
				d.add(b.Bytes())
			}
			// interrupts: the vectors come from this workload's own memory image
			if i%5 == int(w.Seed%5) {
				if rig.Mix(w.Seed, uint32(i))&1 == 0 {
					cpu.TriggerIRQ()
				} else {
					cpu.SetInterrupt(interruptNMI)
				}
			}
			c, s, p := cpu.Step()
			d.add(c, s, fmt.Sprint(p))
			if p != nil {
				break
			}
		}
		d.add(fmt.Sprint(cpu.Raw()), hits)
		memDigest(&d, mem)
	case "prifork", "altfork": // a CPU forked from another with InitFrom into an already initialised object
		mk := func() rig.CPU {
			if w.Kind == "prifork" {
				return rig.NewPrimary()
			}
			return rig.NewAlt()
		}
		a := mk()
		ma := rig.NewMem(w.Seed)
		a.SetMem(ma)
		a.LoadRaw(c18State(w.Seed))
		b, ref := mk(), mk()
		ready()
		for i := 0; i < w.N/2; i++ {
			if _, _, p := a.Step(); p != nil {
				break
			}
		}
		switch bb := b.(type) {
		case *rig.Primary:
			bb.C.InitFrom(a.(*rig.Primary).C, bb.Bus)
		case *rig.Alt:
			bb.C.InitFrom(a.(*rig.Alt).C)
			bb.Rebind()
		}
		mb := ma.Clone()
		b.SetMem(mb)
		mr := ma.Clone()
		ref.SetMem(mr)
		ref.LoadRaw(a.Raw())
		before := a.Raw()
		var sumA uint64
		for k, v := range ma.Over {
			sumA += rig.Hash64(k, v)
		}
		for i := 0; i < w.N; i++ {
			_, _, p1 := b.Step()
			_, _, p2 := ref.Step()
			if p1 != nil || p2 != nil {
				break
			}
		}
		if b.Raw() != ref.Raw() || len(rig.DiffMem(mb, mr, 1)) > 0 {
			return 0, fmt.Errorf("%s(seed %d): a CPU forked with InitFrom ran differently from a fresh CPU loaded with the same state: fork %+v, fresh %+v", w.Kind, w.Seed, b.Raw(), ref.Raw())
		}
		var sumA2 uint64
		for k, v := range ma.Over {
			sumA2 += rig.Hash64(k, v)
		}
		if a.Raw() != before || sumA != sumA2 {
			return 0, fmt.Errorf("%s(seed %d): stepping the forked CPU changed the CPU it was forked from: %+v -> %+v", w.Kind, w.Seed, before, a.Raw())
		}
		d.add(fmt.Sprint(b.Raw()))
		memDigest(&d, mb)
	case "emclones": // two clones of one parent emitter, each driven from its own goroutine
		parent := asm.NewEmitter(make([]byte, 64), false)
		parent.SetBase(0x008000 + w.Seed&0xff)
		for i := 0; i < 3+int(w.Seed%5); i++ {
			parent.BNE("fwd") // pending forward references: the reference list has spare capacity
		}
		parent.JMP_abs("far")
		c1, c2 := parent.Clone(make([]byte, 64)), parent.Clone(make([]byte, 64))
		ready()
		var inner sync.WaitGroup
		inner.Add(1)
		go func() {
			defer inner.Done()
			c2.NOP()
			c2.BEQ("fwd")
			c2.JMP_abs("far")
			c2.Label("fwd")
			c2.Label("far")
		}()
		c1.BEQ("fwd")
		c1.JMP_abs("far")
		c1.NOP()
		c1.NOP()
		c1.Label("fwd")
		c1.Label("far")
		inner.Wait()
		// clone 1 goes back into the parent; the image is fully determined
		nb := 3 + int(w.Seed%5)
		base := 0x008000 + w.Seed&0xff
		parent.Append(c1)
		ferr := parent.Finalize()
		got := parent.Bytes()
		target := base + uint32(2*nb+3+7)
		var want []byte
		for i := 0; i < nb; i++ {
			want = append(want, 0xD0, byte(2*nb+3+7-(2*i+2)))
		}
		want = append(want, 0x4C, byte(target), byte(target>>8), 0xF0, 5, 0x4C, byte(target), byte(target>>8), 0xEA, 0xEA)
		d.add(ferr == nil, got, c2.Bytes())
		if ferr != nil || !bytes.Equal(got, want) {
			return 0, fmt.Errorf("emclones(seed %d): after two clones of one parent were emitted into and the first was appended back, the image is % x (Finalize: %v), want % x", w.Seed, got, ferr, want)
		}
		if v, ok := c2.GetLabel("fwd"); !ok || v != base+uint32(2*nb+3+6) {
			return 0, fmt.Errorf("emclones(seed %d): second clone's label is $%06x (%v)", w.Seed, v, ok)
		}
	case "emitter":
		em := asm.NewEmitter(make([]byte, needOf(w.Ops)+8), true)
		ready()
		for _, o := range w.Ops {
			r, p := asmcat.ApplyReal(em, o)
			d.add(r, fmt.Sprint(p))
		}
		for rep := 0; rep < 40; rep++ { // listed repeatedly so that the listing code of two emitters really overlaps in time
			var tb, hb bytes.Buffer
			e1, e2 := em.WriteTextTo(&tb), em.WriteHexTo(&hb)
			d.add(e1 == nil, e2 == nil, tb.Bytes(), hb.Bytes())
		}
		cl := em.Clone(make([]byte, 16))
		cl.NOP()
		// which failing reference Finalize names (and what it patched before failing) depends on map order even
		// sequentially: only the verdict, and the bytes after a success, are deterministic observables
		ferr := em.Finalize()
		d.add(ferr == nil, em.PC(), byte(em.Flags()), cl.Bytes())
		if ferr == nil {
			d.add(em.Bytes())
		}
	case "rom":
		img := make([]byte, 0x10000)
		for i := range img {
			img[i] = rig.Mix(w.Seed, uint32(i))
		}
		ready()
		r, e := snes.NewROM("c18", img)
		if e != nil {
			return 0, e
		}
		d.add(fmt.Sprintf("%+v", r.Header), r.Header.HeaderVersion(), r.Header.Score(0x7fb0), snes.RegionNames[r.Header.DestinationCode])
		d.add(fmt.Sprint(r.WriteHeader()))
		for i := 0; i < w.N; i++ {
			addr := uint32(i&1)<<16 | uint32(rig.Mix(w.Seed, uint32(i)))<<8 | 0x10
			wr := r.BusWriter(addr)
			n, e := wr.Write([]byte{byte(i), byte(i >> 8), rig.Mix(w.Seed, uint32(i))})
			buf := make([]byte, 5)
			m, e2 := io.ReadFull(r.BusReader(addr), buf)
			d.add(n, fmt.Sprint(e), m, fmt.Sprint(e2), buf)
			// header write-back and re-parse on this workload's own ROM, every round
			r.Header.MaskROMVersion = byte(i)
			r.Header.RAMSize = rig.Mix(w.Seed, uint32(i)) & 7
			e3 := r.WriteHeader()
			e4 := r.ReadHeader()
			var hb bytes.Buffer
			e5 := r.Header.WriteHeader(&hb)
			d.add(fmt.Sprint(e3, e4, e5), hb.Bytes(), r.Contents[0x7fb0:0x8000], r.Header.HeaderVersion())
		}
		d.add(r.Contents)
	case "pure":
		ready()
		// first of all every stateless function is called once, in an order that differs from workload to workload: in a
		// fresh process these are the first calls ever, made by several goroutines at the same moment (state that is built
		// lazily on first use is being built right now, if there is any)
		{
			first := []func(){
				func() { d.add(color15.Color(w.Seed).Luminosity()) },
				func() { d.add(uint16(color15.Color(w.Seed).MulDiv(byte(w.Seed>>8)|1, byte(w.Seed>>16)|1))) },
				func() {
					r, g, b := color15.Color(w.Seed >> 3).ToRGB()
					d.add(r, g, b, uint16(color15.ToColor15(r, g, b)))
				},
			}
			for _, m := range mappers {
				m := m
				first = append(first, func() { p, e := m.b2p(w.Seed & 0xFFFFFF); d.add(p, e == nil) }, func() { b, e := m.p2b(w.Seed >> 4 & 0xFFFFFF); d.add(b, e == nil) })
			}
			for k := range first {
				first[(k+int(w.Seed%uint32(len(first))))%len(first)]()
			}
		}
		for i := 0; i < w.N; i++ {
			a := uint32(rig.Mix(w.Seed, uint32(4*i)))<<16 | uint32(rig.Mix(w.Seed, uint32(4*i+1)))<<8 | uint32(rig.Mix(w.Seed, uint32(4*i+2)))
			for _, m := range mappers {
				p, e := m.b2p(a)
				b, e2 := m.p2b(a)
				d.add(p, e == util.ErrUnmappedAddress, b, e2 == util.ErrUnmappedAddress)
			}
			c := color15.Color(a)
			r, g, b := c.ToRGB()
			d.add(r, g, b, c.Luminosity(), uint16(c.MulDiv(byte(a>>8), byte(a)|1)), uint16(color15.ToColor15(byte(a), byte(a>>8), byte(a>>16))))
		}
	default:
		return 0, fmt.Errorf("bad workload kind %q", w.Kind)
	}
	return d.h, nil
}

type c18Stats struct{ maxSameKind int32 }

// c18Check runs the workloads all at once on separate goroutines released by a common barrier,
// then one after another, and compares the digests.
func c18Check(c c18Case, st *c18Stats) error {
	// the concurrent phase runs FIRST: lazily initialised package state (caches, memo tables) is still cold in the
	// first round of a process, and a sequential reference run beforehand would warm it and hide its races
	par := make([]uint64, len(c.Work))
	errs := make([]error, len(c.Work))
	// start/end times are written to per-workload slots and evaluated afterwards: no atomics or locks are shared
	// between the workload goroutines, because any such synchronisation would order them for the race detector
	// (happens-before) and hide conflicting accesses of workloads that did not literally overlap
	t0s := make([]time.Time, len(c.Work))
	t1s := make([]time.Time, len(c.Work))
	var wg, setup sync.WaitGroup
	start, goCh := make(chan struct{}), make(chan struct{})
	setup.Add(len(c.Work))
	for i, w := range c.Work {
		wg.Add(1)
		go func(i int, w c18Work) {
			defer wg.Done()
			<-start
			par[i], errs[i] = c18Run(w, func() {
				setup.Done()
				<-goCh // released when every workload of the round has built its instances
				t0s[i] = time.Now()
			})
			t1s[i] = time.Now()
		}(i, w)
	}
	close(start)
	setup.Wait()
	close(goCh)
	wg.Wait()
	var maxSame int32
	for i, w := range c.Work {
		n := int32(1)
		for j, v := range c.Work {
			if j != i && v.Kind == w.Kind && t0s[j].Before(t1s[i]) && t0s[i].Before(t1s[j]) {
				n++
			}
		}
		if n > maxSame {
			maxSame = n
		}
	}
	if st != nil {
		st.maxSameKind = maxSame
	}
	seq := make([]uint64, len(c.Work))
	for i, w := range c.Work {
		h, err := c18Run(w, nil)
		if err != nil {
			return fmt.Errorf("sequential run: %v", err)
		}
		seq[i] = h
		// determinism of the workload itself (a second sequential run)
		if i < 2 || w.Kind == "emitter" || w.Kind == "rom" || w.Kind == "pure" {
			if h2, _ := c18Run(w, nil); h2 != h {
				return fmt.Errorf("workload %d %s(seed %d) is not deterministic even sequentially: %x vs %x", i, w.Kind, w.Seed, h, h2)
			}
		}
	}
	for i, w := range c.Work {
		if errs[i] != nil {
			return fmt.Errorf("concurrent run: %v", errs[i])
		}
		if par[i] != seq[i] {
			return fmt.Errorf("workload %d %s(seed %d, n %d) produced digest %x when run alone and %x when run concurrently with %d others", i, w.Kind, w.Seed, w.N, seq[i], par[i], len(c.Work)-1)
		}
	}
	return nil
}

func c18RacePath() string {
	return filepath.Join(rig.Dir(), "replays", "C18", fmt.Sprintf("%s-seed%d-shard%d-race.json", rig.Tier(), rig.Seed(), rig.Shard()))
}

func init() {
	rig.RegisterReplay("C18", func(data []byte) error {
		var rf rig.ReplayFile
		if err := json.Unmarshal(data, &rf); err != nil {
			return err
		}
		var c c18Case
		if err := json.Unmarshal(rf.Case, &c); err != nil {
			return err
		}
		for i := 0; i < 3; i++ { // schedule-dependent: a few attempts
			if err := c18Check(c, nil); err != nil {
				return err
			}
		}
		return nil
	})
}

func TestC18(t *testing.T) {
	rig.Main(t, "C18", "rapid rounds of 18-36 workloads (every kind at least twice per round), each a pure function of its drawn parameters on freshly created instances (emulator.System with trace logger; System with the "+
		"real memory map; cpu65c816+bus with disassembly; cpualt with disassembly; CPUs of both kinds forked with InitFrom; emitter history with listings, Clone and Finalize; ROM header parse/rewrite and bus readers/writers; "+
		"mapper and colour functions): run one after another, then all at once on separate goroutines released by a common barrier in a binary built with the Go race detector; every "+
		"digest must be unchanged and the race detector must stay silent.  Non-trivial = at least two workloads of the same kind were in flight together; distinct = hash(round).",
		func(r *rig.Run) {
			ev := r.Ev
			kinds := []string{"system", "sysmap", "pri", "alt", "prifork", "altfork", "emitter", "emclones", "rom", "pure"}
			var overlapped int64
			// every shard is a process of its own: state that is initialised lazily on first use is cold in the first round of
			// each of them, so the rounds are spread over many processes (quick 3 x 1, thorough 16 x 2)
			r.Rapid("rounds", rig.Pick(1, 2), func(t *rapid.T) {
				// every kind at least twice per round (shared state is only exposed when two instances of the
				// same code run together), plus a drawn number of extra workloads
				// fixed part of a round: every base kind twice, the two fork kinds once (they share their code with pri/alt)
				var fixed []string
				for _, k := range kinds {
					fixed = append(fixed, k)
					if k == "pure" {
						fixed = append(fixed, k, k) // four of them: they are cheap, and first-use races need company
					}
					if k != "prifork" && k != "altfork" {
						fixed = append(fixed, k)
					}
				}
				n := len(fixed) + rapid.IntRange(0, rig.Pick(2, 16)).Draw(t, "extra")
				var c c18Case
				for i := 0; i < n; i++ {
					w := c18Work{Seed: rapid.Uint32().Draw(t, "seed")}
					if i < len(fixed) {
						w.Kind = fixed[i]
					} else {
						w.Kind = kinds[rapid.IntRange(0, len(kinds)-1).Draw(t, "kind")]
					}
					switch w.Kind {
					case "system":
						w.N = rapid.IntRange(200, 1500).Draw(t, "cycles")
					case "pri", "alt", "prifork", "altfork":
						w.N = rapid.IntRange(20, 200).Draw(t, "steps")
					case "emitter":
						w.Ops = asmcat.GenHistory(t, asmcat.GenOpts{MaxOps: 40, Labels: true, Data: true, Comments: true, SetBase: true, Assume: true, BadGuard: true})
					default:
						w.N = rapid.IntRange(50, 2000).Draw(t, "n-ops")
					}
					c.Work = append(c.Work, w)
				}
				// the round is saved first: if the race detector kills or flags the process, this file is the reproduction
				raw, _ := json.Marshal(c)
				rf := rig.ReplayFile{Property: "C18", Kind: "round", Error: "data race reported by the Go race detector while this round ran (see the check's output)", Case: raw}
				out, _ := json.MarshalIndent(rf, "", " ")
				_ = os.MkdirAll(filepath.Dir(c18RacePath()), 0o755)
				_ = os.WriteFile(c18RacePath(), out, 0o644)
				var st c18Stats
				r.Check(t, "round", c, func() error { return c18Check(c, &st) })
				for _, w := range c.Work {
					ev.Class("workload/" + w.Kind)
				}
				if st.maxSameKind >= 2 {
					overlapped++
				}
				ev.Class(fmt.Sprintf("max-same-kind-in-flight/%d", st.maxSameKind))
				ev.Case(st.maxSameKind >= 2, rig.Hash64(raw), func() interface{} {
					// samples: keep them short
					s := c
					if len(s.Work) > 4 {
						s.Work = s.Work[:4]
					}
					return s
				})
			})
			// the driver scans the output for race reports and removes the saved round when there is none
			ev.Extra["rounds_with_same_kind_overlap"] = overlapped
			ev.Assumption("the harness does not own the scheduler: only the interleavings that occurred are covered; the race detector sees only accesses that actually executed")
		})
}
