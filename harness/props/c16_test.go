package props

import (
	"bytes"
	"encoding/json"
	"fmt"
	"testing"

	"github.com/alttpo/snes/asm"
	"pgregory.net/rapid"

	"verif/harness/asmcat"
	"verif/harness/rig"
)

// C16 — emitting through Clone and Append is equivalent to emitting directly.

type c16Case struct {
	Ops     []asmcat.Op `json:"ops"`
	Split   int         `json:"split"` // ops[:split] go to the original, ops[split:] to the clone
	Listing bool        `json:"listing"`
	Short   int         `json:"short"` // >0: the original's buffer is this many bytes too small for the tail (Append must be refused)
	Coda    []asmcat.Op `json:"coda"`  // calls made after Append on both emitters: they must keep behaving alike
	// Sibling: a second clone of the original is alive at the same time; it receives a NOP and then every tail call
	// right after the kept clone received it (one byte further on), and is discarded (a dry run of a variant)
	Sibling bool `json:"sibling,omitempty"`
	// InPlace: the clone's target is the free part of the original's own backing array, starting exactly at the original's
	// write position (the zero-copy idiom a.Clone(buf[a.Len():])); it may reach beyond the original's window
	InPlace bool `json:"in_place,omitempty"`
	// Nested: the tail goes into a clone of the clone; it is appended to the (otherwise unused) first clone, which is
	// then appended to the original
	Nested bool `json:"nested,omitempty"`
	// FinAtSplit: Finalize is (also) called at the split point - on the direct emitter between the two halves, on the
	// original right before it is cloned; whatever it resolves or reports there, the outcome at the end must be the same
	FinAtSplit bool `json:"fin_at_split,omitempty"`
}

type emObs struct {
	snap      emSnap
	text, hex string
	textErr   string
}

func observe(em *asm.Emitter) emObs {
	o := emObs{snap: snapOf(em)}
	var tb, hb bytes.Buffer
	if pe := rig.Safe(func() error {
		if err := em.WriteTextTo(&tb); err != nil {
			return err
		}
		return em.WriteHexTo(&hb)
	}); pe != nil {
		o.textErr = pe.Error()
	}
	o.text, o.hex = tb.String(), hb.String()
	return o
}

func (a emObs) diff(b emObs) string {
	if d := a.snap.diff(b.snap, true); d != "" {
		return d
	}
	if a.textErr != b.textErr {
		return fmt.Sprintf("listing error %q vs %q", a.textErr, b.textErr)
	}
	if a.text != b.text {
		return fmt.Sprintf("text listings differ:\n--- first\n%s--- second\n%s", a.text, b.text)
	}
	if a.hex != b.hex {
		return "hex listings differ"
	}
	return ""
}

// diffMasked is diff without the listings and without the operand bytes of label references (mask): a Finalize that
// fails has patched whichever references it came to first (it walks a map), so two emitters with the same history may
// differ in those bytes until a later Finalize succeeds.
func (a emObs) diffMasked(b emObs, mask map[int]bool) string {
	if mask == nil {
		return a.diff(b)
	}
	x, y := a.snap, b.snap
	x.bytes, y.bytes = append([]byte(nil), x.bytes...), append([]byte(nil), y.bytes...)
	for i := range mask {
		if i < len(x.bytes) {
			x.bytes[i] = 0
		}
		if i < len(y.bytes) {
			y.bytes[i] = 0
		}
	}
	return x.diff(y, true)
}

func c16Check(c c16Case) error {
	if c.Split < 0 || c.Split > len(c.Ops) {
		return fmt.Errorf("malformed case")
	}
	if c.Short == 0 {
		if err := c16DryRun(c); err != nil {
			return err
		}
	}
	head, tail := c.Ops[:c.Split], c.Ops[c.Split:]
	total := needOf(c.Ops) + needOf(c.Coda) + 16
	// direct emitter
	d := asm.NewEmitter(make([]byte, total), c.Listing)
	var finD, finA error
	var mask map[int]bool
	for i, o := range c.Ops {
		if c.FinAtSplit && i == c.Split {
			finD = rig.Safe(func() error { return d.Finalize() })
		}
		asmcat.ApplyReal(d, o) // refusals (wrong width, duplicate label) are part of the history on both sides
	}
	if c.FinAtSplit && c.Split == len(c.Ops) {
		finD = rig.Safe(func() error { return d.Finalize() })
	}
	// split emitters
	acap := total
	tailBytes := 0
	{
		// what the tail really emits is known only by running it: use the direct emitter's length
		dh := asm.NewEmitter(make([]byte, total), c.Listing)
		for _, o := range head {
			asmcat.ApplyReal(dh, o)
		}
		tailBytes = d.Len() - dh.Len()
		if c.Short > 0 {
			if tailBytes == 0 {
				return nil // nothing to refuse
			}
			s := c.Short
			if s > tailBytes {
				s = tailBytes
			}
			acap = dh.Len() + tailBytes - s
		}
	}
	// the original's target is a window into a larger array (len < cap): nothing may be written beyond it
	abig := make([]byte, acap+16)
	for i := range abig {
		abig[i] = 0xC3
	}
	a := asm.NewEmitter(abig[4:4+acap], c.Listing)
	guardOK := func() bool {
		for i := 0; i < 4; i++ {
			if abig[i] != 0xC3 {
				return false
			}
		}
		for i := 4 + acap; i < len(abig) && !c.InPlace; i++ {
			if abig[i] != 0xC3 {
				return false
			}
		}
		return true
	}
	for _, o := range head {
		asmcat.ApplyReal(a, o)
	}
	if c.FinAtSplit {
		finA = rig.Safe(func() error { return a.Finalize() })
		if (finA == nil) != (finD == nil) {
			return fmt.Errorf("Finalize at the split point: %v on the original, %v on the direct emitter after the same calls", finA, finD)
		}
		if finD != nil {
			// until a Finalize succeeds, operand bytes of label references are compared no more
			mask = map[int]bool{}
			m := asmcat.NewModel(1<<30, false, false)
			for _, o := range c.Ops {
				m.Apply(o)
			}
			for _, o := range c.Coda {
				m.Apply(o)
			}
			for _, r := range m.Refs {
				mask[r.Off] = true
				if r.Wide {
					mask[r.Off+1] = true
				}
			}
		}
	}
	atSplit := observe(a)
	cloneTarget := make([]byte, needOf(tail)+16)
	inPlace := c.InPlace && 4+a.Len()+tailBytes <= len(abig)
	if inPlace {
		cloneTarget = abig[4+a.Len():]
	}
	// the caller asks the original about a label that only the tail will define - the last question before the clone is
	// made, and the first one after it has been appended
	asked := ""
	dl := snapOf(d).labels
	for _, n := range allLabelNames {
		if _, inHead := atSplit.snap.labels[n]; !inHead {
			if _, inAll := dl[n]; inAll {
				asked = n
				break
			}
		}
	}
	if asked != "" {
		if v, ok := a.GetLabel(asked); ok {
			return fmt.Errorf("GetLabel(%q) on the original before the tail was emitted = ($%06x, true)", asked, v)
		}
	}
	cl := a.Clone(cloneTarget)
	var sib *asm.Emitter
	if c.Sibling {
		sib = a.Clone(make([]byte, needOf(tail)+17))
		sib.NOP()
	}
	inner := cl
	if c.Nested && !inPlace {
		inner = cl.Clone(make([]byte, needOf(tail)+16))
	}
	for _, o := range tail {
		asmcat.ApplyReal(inner, o)
		if sib != nil {
			asmcat.ApplyReal(sib, o)
		}
	}
	if inner != cl {
		if pe := rig.Safe(func() error { cl.Append(inner); return nil }); pe != nil {
			return fmt.Errorf("Append of a clone's clone to the clone failed although it fits: %v", pe)
		}
	}
	// the clone is also listed and finalised: nothing done to it may show in the original
	_ = observe(cl)
	clf := cl.Clone(make([]byte, needOf(tail)+16))
	_ = rig.Safe(func() error { return clf.Finalize() })
	if df := atSplit.diff(observe(a)); df != "" {
		return fmt.Errorf("before Append the original changed although only the clone was used: %s", df)
	}
	var pan interface{}
	func() {
		defer func() { pan = recover() }()
		a.Append(cl)
	}()
	if c.Short > 0 {
		if pan == nil {
			return fmt.Errorf("Append of %d bytes into %d free bytes was accepted", tailBytes, acap-atSplit.snap.n)
		}
		if df := atSplit.diff(observe(a)); df != "" {
			return fmt.Errorf("refused Append modified the original: %s", df)
		}
		if !guardOK() {
			return fmt.Errorf("refused Append wrote outside the original's %d-byte target buffer", acap)
		}
		return nil
	}
	if !guardOK() {
		return fmt.Errorf("Append wrote outside the original's %d-byte target buffer", acap)
	}
	if pan != nil {
		return fmt.Errorf("Append panicked although the tail (%d bytes) fits (%d free): %v", tailBytes, acap-atSplit.snap.n, pan)
	}
	if asked != "" {
		v1, ok1 := a.GetLabel(asked)
		v2, ok2 := d.GetLabel(asked)
		if v1 != v2 || ok1 != ok2 {
			return fmt.Errorf("GetLabel(%q) asked of the original right before Clone and again right after Append = ($%06x, %v), the direct emitter says ($%06x, %v)", asked, v1, ok1, v2, ok2)
		}
	}
	if df := observe(d).diffMasked(observe(a), mask); df != "" {
		return fmt.Errorf("after Clone+Append the emitter differs from one that received the whole sequence (split at %d of %d): %s", c.Split, len(c.Ops), df)
	}
	if !inPlace {
		// the appended clone is used further (it has its own buffer): no call on the original, nothing may change there
		_ = rig.Safe(func() error { cl.Comment("variant"); cl.EmitBytes([]byte{1, 2, 3}); return nil })
		if df := observe(d).diffMasked(observe(a), mask); df != "" {
			return fmt.Errorf("the clone was used again after it had been appended and the original changed: %s", df)
		}
	}
	// the joined emitter keeps behaving like the direct one
	for i, o := range c.Coda {
		r1, p1 := asmcat.ApplyReal(d, o)
		r2, p2 := asmcat.ApplyReal(a, o)
		if (p1 == nil) != (p2 == nil) || r1 != r2 {
			return fmt.Errorf("after Append, call %d %v behaves differently: direct (%d, %v), clone+append (%d, %v)", i, o, r1, p1, r2, p2)
		}
	}
	if !inPlace {
		// ... and once more after the original's own later calls
		_ = rig.Safe(func() error { cl.Comment("variant"); cl.EmitBytes([]byte{4, 5}); return nil })
	}
	if len(c.Coda) > 0 {
		if df := observe(d).diffMasked(observe(a), mask); df != "" {
			return fmt.Errorf("after Append and %d further calls the emitters differ: %s", len(c.Coda), df)
		}
	}
	// Finalize outcome and finalized bytes
	var e1, e2 error
	p1 := rig.Safe(func() error { e1 = d.Finalize(); return nil })
	p2 := rig.Safe(func() error { e2 = a.Finalize(); return nil })
	if (p1 == nil) != (p2 == nil) {
		return fmt.Errorf("Finalize panics on one side only: direct %v, clone+append %v", p1, p2)
	}
	if p1 != nil {
		return nil
	}
	if (e1 == nil) != (e2 == nil) {
		return fmt.Errorf("Finalize: direct emitter returned %v, clone+append emitter %v", e1, e2)
	}
	if e1 == nil {
		if df := observe(d).diff(observe(a)); df != "" {
			return fmt.Errorf("after Finalize the emitters differ: %s", df)
		}
	} else {
		// the message is comparable only when exactly one reference fails
		m := asmcat.NewModel(1<<30, false, false)
		for _, o := range c.Ops {
			m.Apply(o)
		}
		for _, o := range c.Coda {
			m.Apply(o)
		}
		out := m.Finalize()
		if len(out.Missing)+len(out.TooFar) == 1 && len(out.Missing) == 1 && e1.Error() != e2.Error() {
			return fmt.Errorf("Finalize errors differ: direct %q, clone+append %q", e1, e2)
		}
	}
	return nil
}

// c16DryRun: the same split with emitters that have no target buffer (measuring mode): after Append the
// program counter, flags and labels must equal those of a direct dry-run emitter, and keep doing so.
func c16DryRun(c c16Case) error {
	d := asm.NewEmitter(nil, c.Listing)
	for _, o := range c.Ops {
		asmcat.ApplyReal(d, o)
	}
	a := asm.NewEmitter(nil, c.Listing)
	for _, o := range c.Ops[:c.Split] {
		asmcat.ApplyReal(a, o)
	}
	cl := a.Clone(nil)
	for _, o := range c.Ops[c.Split:] {
		asmcat.ApplyReal(cl, o)
	}
	var pan interface{}
	func() {
		defer func() { pan = recover() }()
		a.Append(cl)
	}()
	if pan != nil {
		return fmt.Errorf("dry-run emitters: Append panicked: %v", pan)
	}
	for i, o := range c.Coda {
		r1, p1 := asmcat.ApplyReal(d, o)
		r2, p2 := asmcat.ApplyReal(a, o)
		if (p1 == nil) != (p2 == nil) || r1 != r2 {
			return fmt.Errorf("dry-run emitters: after Append, call %d %v behaves differently: direct (%d, %v), clone+append (%d, %v)", i, o, r1, p1, r2, p2)
		}
	}
	s1, s2 := snapOf(d), snapOf(a)
	if df := s1.diff(s2, true); df != "" {
		return fmt.Errorf("dry-run emitters (no target buffer): after Clone+Append the emitter differs from a direct one (split at %d of %d): %s", c.Split, len(c.Ops), df)
	}
	// an emitter without a buffer has no capacity: a clone that was given a real buffer and emitted bytes into it cannot be
	// appended (refused, the original stays as it was); one that emitted nothing can
	{
		o := asm.NewEmitter(nil, false)
		for _, op := range c.Ops[:c.Split] {
			asmcat.ApplyReal(o, op)
		}
		before := snapOf(o)
		rc := o.Clone(make([]byte, needOf(c.Ops[c.Split:])+16))
		for _, op := range c.Ops[c.Split:] {
			asmcat.ApplyReal(rc, op)
		}
		var pan interface{}
		func() {
			defer func() { pan = recover() }()
			o.Append(rc)
		}()
		if rc.Len() > 0 {
			if pan == nil {
				return fmt.Errorf("an emitter without a target buffer accepted the Append of a clone holding %d bytes", rc.Len())
			}
			if df := before.diff(snapOf(o), true); df != "" {
				return fmt.Errorf("an emitter without a target buffer refused the Append of a clone holding %d bytes but changed: %s", rc.Len(), df)
			}
		} else if pan != nil {
			return fmt.Errorf("an emitter without a target buffer refused the Append of a clone that emitted no bytes: %v", pan)
		}
	}
	if c.Listing {
		// listings of emitters without a buffer: whatever the direct one produces (text or failure), the joined one produces too
		if df := observe(d).diff(observe(a)); df != "" {
			return fmt.Errorf("dry-run emitters with listing generation on: after Clone+Append %s", df)
		}
	}
	return nil
}

func labelPoolName(i int) string { return allLabelNames[i] }

func init() {
	rig.RegisterReplay("C16", func(data []byte) error {
		var rf rig.ReplayFile
		if err := json.Unmarshal(data, &rf); err != nil {
			return err
		}
		var c c16Case
		if err := json.Unmarshal(rf.Case, &c); err != nil {
			return err
		}
		return c16Check(c)
	})
}

func TestC16(t *testing.T) {
	rig.Main(t, "C16", "rapid: an emitter history (labels, references on both sides, data, comments, optional base, width assumptions, refused calls) x every kind of split point x listing on/off: "+
		"the head goes to an emitter A, the tail to A.Clone(), then A.Append(clone) (in a third of the cases a second clone of A receives the same tail one byte further on and is discarded); a direct emitter D receives the whole history.  Before Append A must equal its snapshot at the split on bytes, "+
		"length, PC, flags, all labels and both listings although the clone was emitted into, listed and finalised; after Append A must equal D on all of these, on Finalize()'s verdict and on the "+
		"finalized bytes; an Append that is 1..n bytes too large must panic and leave A unchanged; in a quarter of the cases Finalize is also called at the split point on both sides; programs that run across a bank boundary are split at every point; tails define 255-512 labels; the original is asked about a label of the tail right before Clone and right after Append.  Non-trivial = a label is defined on one side of the split and referenced on the other; distinct = hash(case).",
		func(r *rig.Run) {
			ev := r.Ev
			// programs that run across a bank boundary (base 8 bytes below it), a label on either side, the same label defined
			// again in the tail (refused on both sides), every split point
			if rig.Shard() == 0 {
				nop := asmcat.Op{Kind: "ins", Method: "NOP"}
				for _, base := range []uint32{0x00FFF8, 0x7EFFF8, 0xFFFFF8} {
					ops := []asmcat.Op{{Kind: "setbase", V: base}, {Kind: "label", Label: "l0"}, nop, nop, {Kind: "ins", Method: "BRA", Label: "l0"}, nop, nop, nop, nop, nop, nop,
						{Kind: "label", Label: "loop"}, nop, {Kind: "label", Label: "l0"}, {Kind: "ins", Method: "BRA", Label: "loop"}, {Kind: "label", Label: "loop"}, {Kind: "ins", Method: "JMP_abs", Label: "l0"}, {Kind: "label", Label: "done"}, nop}
					for split := 0; split <= len(ops); split++ {
						for _, listing := range []bool{false, true} {
							c := c16Case{Ops: ops, Split: split, Listing: listing}
							r.CheckSweep("rapid", c, func() error { return c16Check(c) })
							ev.Case(true, rig.Hash64("cross-bank", base, split, listing), func() interface{} { return c })
							ev.Class("program-runs-across-a-bank-boundary")
						}
					}
				}
			}
			// tails that define several hundred labels (and refer to some of them from the head and from the tail)
			if rig.Shard() == 1%rig.Shards() {
				nop := asmcat.Op{Kind: "ins", Method: "NOP"}
				for _, n := range []int{255, 256, 257, 512} {
					ops := []asmcat.Op{nop, {Kind: "ins", Method: "JMP_abs", Label: "g0"}, {Kind: "ins", Method: "JMP_abs", Label: fmt.Sprintf("g%d", n-1)}}
					for i := 0; i < n; i++ {
						ops = append(ops, asmcat.Op{Kind: "label", Label: fmt.Sprintf("g%d", i)}, nop)
					}
					ops = append(ops, asmcat.Op{Kind: "ins", Method: "JMP_abs", Label: fmt.Sprintf("g%d", n/2)}, asmcat.Op{Kind: "ins", Method: "BRA", Label: fmt.Sprintf("g%d", n-1)})
					for _, split := range []int{0, 3, 3 + n, len(ops) - 2} {
						c := c16Case{Ops: ops, Split: split, Listing: n%2 == 0}
						r.CheckSweep("rapid", c, func() error { return c16Check(c) })
						ev.Case(true, rig.Hash64("many-labels", n, split), nil)
						ev.Class("tail-defines-several-hundred-labels")
					}
				}
			}
			r.Rapid("rapid", rig.Pick(25000, 100000), func(t *rapid.T) {
				c := c16Case{Listing: rapid.Bool().Draw(t, "listing")}
				c.Ops = asmcat.GenHistory(t, asmcat.GenOpts{MaxOps: rig.Pick(30, 80), Labels: true, Data: true, Comments: true, SetBase: true, Assume: true, BadGuard: true})
				switch rapid.IntRange(0, 5).Draw(t, "split-kind") {
				case 0:
					c.Split = 0
				case 1:
					c.Split = len(c.Ops)
				case 2:
					c.Split = 1
					if c.Split > len(c.Ops) {
						c.Split = len(c.Ops)
					}
				default:
					c.Split = rapid.IntRange(0, len(c.Ops)).Draw(t, "split")
				}
				if rapid.Bool().Draw(t, "with-coda") {
					c.Coda = []asmcat.Op{{Kind: "comment", Text: "after append"}, {Kind: "ins", Method: "NOP"}, {Kind: "label", Label: "lbl"}, {Kind: "ins", Method: "BRA", Label: labelPoolName(rapid.IntRange(0, 7).Draw(t, "coda-label"))}}
					c.Coda = c.Coda[:rapid.IntRange(1, 4).Draw(t, "coda-len")]
				}
				if rapid.IntRange(0, 3).Draw(t, "nested") == 0 {
					c.Nested = true
					ev.Class("tail-emitted-into-a-clone-of-the-clone")
				}
				if rapid.IntRange(0, 3).Draw(t, "in-place") == 0 {
					c.InPlace = true
					ev.Class("clone-target-is-the-free-part-of-the-original's-own-array")
				}
				if rapid.IntRange(0, 2).Draw(t, "sibling") == 0 {
					c.Sibling = true
					ev.Class("a-second-clone-of-the-original-is-used-at-the-same-time-and-discarded")
				}
				if rapid.IntRange(0, 5).Draw(t, "short") == 0 {
					c.Short = rapid.IntRange(1, 4).Draw(t, "short-by")
				}
				if rapid.IntRange(0, 3).Draw(t, "finalize-at-split") == 0 {
					c.FinAtSplit = true
					ev.Class("Finalize-also-called-at-the-split-point")
				}
				r.Check(t, "rapid", c, func() error { return c16Check(c) })
				// classify: label defined on one side, referenced on the other
				defSide, cross := map[string]int{}, false
				for i, o := range c.Ops {
					side := 1
					if i >= c.Split {
						side = 2
					}
					if o.Kind == "label" && defSide[o.Label] == 0 {
						defSide[o.Label] = side
					}
				}
				for i, o := range c.Ops {
					side := 1
					if i >= c.Split {
						side = 2
					}
					if o.Kind == "ins" && o.Label != "" && defSide[o.Label] != 0 && defSide[o.Label] != side {
						cross = true
						if side == 1 {
							ev.Class("forward-reference-before-split-resolved-after")
						} else {
							ev.Class("reference-after-split-to-label-before")
						}
					}
				}
				if c.Short > 0 {
					ev.Class("append-must-be-refused")
				}
				if c.Split == 0 {
					ev.Class("split-at-0")
				}
				if bi := asmcat.BaseIndex(c.Ops); bi >= 0 && c.Split > bi {
					ev.Class("base-set-before-split")
				}
				if bi := asmcat.BaseIndex(c.Ops); bi >= 0 && c.Split <= bi {
					ev.Class("base-set-in-the-clone")
				}
				raw, _ := json.Marshal(c)
				ev.Case(cross, rig.Hash64(raw), func() interface{} { return c })
			})
		})
}
