package props

import (
	"bytes"
	"encoding/json"
	"errors"
	"fmt"
	"io"
	"sync"
	"testing"

	snes "github.com/alttpo/snes"
	"pgregory.net/rapid"

	"verif/harness/rig"
)

// C10 — ROM bus readers/writers stay inside the addressed bank and obey io contracts.

type c10Op struct {
	Kind string `json:"kind"` // "write", "copy" (write via io.Copy from a plain reader), "alias" (the written slice is an overlapping part of the image itself), "string" (io.WriteString), "grow" (Contents re-allocated), "reopen", "read"
	N    int    `json:"n"`    // write length / read buffer size
	Seed uint32 `json:"seed"` // write data = Mix(seed, i)
}

type c10Case struct {
	Banks int     `json:"banks"` // image = Banks * 32 KiB
	Tail  int     `json:"tail"`
	Bank  uint32  `json:"bank"`
	Off   uint32  `json:"off"`
	Ops   []c10Op `json:"ops"`
	// Hdr: where the caller says the image's header is - nothing the bus windows depend on: 0 = as NewROM leaves it
	// ($7FB0), 1 = HeaderOffset set to $FFB0 (a HiROM image), 2 = set to 0, 3 = set to $81B0 (copier header),
	// 4 = the ROM is a struct literal with just the contents
	Hdr int `json:"hdr,omitempty"`
}

var (
	c10Images = map[int][]byte{}
	c10ImgMu  sync.Mutex
)

// c10Pristine returns the (cached, never modified) initial image of the given size.
func c10Pristine(size int) []byte {
	if size < 1<<20 {
		img := make([]byte, size)
		for i := range img {
			img[i] = rig.Mix(0xC10, uint32(i))
		}
		return img
	}
	c10ImgMu.Lock()
	defer c10ImgMu.Unlock()
	img, ok := c10Images[size]
	if !ok {
		img = make([]byte, size)
		for i := range img {
			img[i] = rig.Mix(0xC10, uint32(i))
		}
		if len(c10Images) > 8 {
			c10Images = map[int][]byte{}
		}
		c10Images[size] = img
	}
	return img
}

// c10Run checks the case against the reference model whose window ends `short` bytes before
// the end of the bank (0 = the property; 1 = the known-finding variant).
func c10Run(c c10Case, short int) error {
	size := c.Banks*0x8000 + c.Tail
	img := c10Pristine(size)
	if size >= 1<<20 {
		img = append([]byte(nil), img...)
	}
	model := append([]byte(nil), img...)
	rom, err := snes.NewROM("c10", img)
	if err != nil {
		return fmt.Errorf("NewROM: %v", err)
	}
	switch c.Hdr {
	case 1:
		rom.HeaderOffset = 0xFFB0
	case 2:
		rom.HeaderOffset = 0
	case 3:
		rom.HeaderOffset = 0x81B0
	case 4:
		rom = &snes.ROM{Name: "c10", Contents: img}
	}
	addr := c.Bank<<16 | c.Off
	cmp := func(when string) error {
		if !bytes.Equal(rom.Contents, model) {
			for i := range model {
				if rom.Contents[i] != model[i] {
					return fmt.Errorf("%s: image byte at file offset $%06X is %02x, model says %02x (window of $%06X is file [$%06X,$%06X))", when, i, rom.Contents[i], model[i], addr, int(c.Bank)*0x8000+int(c.Off)-0x8000, int(c.Bank)*0x8000+0x8000-short)
				}
			}
		}
		return nil
	}
	if c.Off < 0x8000 {
		w, rd := rom.BusWriter(addr), rom.BusReader(addr)
		for i, op := range c.Ops {
			buf := make([]byte, op.N)
			var n int
			var e error
			if op.Kind == "write" {
				n, e = w.Write(buf)
			} else {
				n, e = rd.Read(buf)
			}
			if !errors.Is(e, io.ErrUnexpectedEOF) || n != 0 {
				return fmt.Errorf("op %d %s(%d bytes) at $%06X (offset below $8000) returned (%d, %v), want (0, unexpected EOF)", i, op.Kind, op.N, addr, n, e)
			}
			if err := cmp(fmt.Sprintf("after op %d", i)); err != nil {
				return err
			}
		}
		return nil
	}
	start := int(c.Bank)*0x8000 + int(c.Off) - 0x8000
	L := int(c.Bank)*0x8000 + 0x8000 - short - start
	if L < 0 {
		L = 0
	}
	if err := c10Concurrent(c, rom, model, addr, start, L); err != nil {
		return err
	}
	w := rom.BusWriter(addr)
	o, dead := 0, false
	var rd io.Reader
	got := 0
	eof := false
	for i, op := range c.Ops {
		switch op.Kind {
		case "reopen":
			w, o, dead = rom.BusWriter(addr), 0, false
		case "grow":
			// the image is re-allocated (e.g. appended to) while readers/writers exist: they must follow ROM.Contents
			bigger := make([]byte, len(rom.Contents), len(rom.Contents)+64)
			copy(bigger, rom.Contents)
			rom.Contents = bigger
			rd, got, eof = nil, 0, false // a reader is a snapshot of the window it was created over; a new one (from position 0) is taken afterwards
		case "write", "copy", "alias", "string":
			if dead {
				continue // position after a failed write is not specified: the writer is not used again
			}
			data := make([]byte, op.N)
			for j := range data {
				data[j] = rig.Mix(op.Seed, uint32(j))
			}
			src := data
			if op.Kind == "alias" && op.N > 0 {
				// the caller moves a block inside the image: the slice handed to Write overlaps the destination
				// (below it for an even seed, above it otherwise); what must be stored is the slice's content at call time
				d := int(op.Seed>>1)%op.N + 1
				s0 := start + o - d
				if op.Seed&1 == 1 {
					s0 = start + o + d
				}
				if s0 < 0 {
					s0 = 0
				}
				if s0+op.N > len(rom.Contents) {
					s0 = len(rom.Contents) - op.N
				}
				if s0 >= 0 {
					src = rom.Contents[s0 : s0+op.N]
					copy(data, src)
				}
			}
			var n int
			var e error
			if op.Kind == "copy" {
				var n64 int64
				n64, e = io.Copy(w, plainReader{bytes.NewReader(data)})
				n = int(n64)
			} else if op.Kind == "string" {
				// text goes through an io.Writer with the standard helper (which prefers a WriteString method if there is one)
				n, e = io.WriteString(w, string(data))
			} else {
				n, e = w.Write(src)
			}
			if o+op.N <= L {
				if n != op.N || e != nil {
					return fmt.Errorf("op %d: Write(%d bytes) at window position %d of %d returned (%d, %v), want (%d, nil)", i, op.N, o, L, n, e, op.N)
				}
			} else {
				if e == nil {
					return fmt.Errorf("op %d: Write(%d bytes) at window position %d of %d does not fit but returned (%d, nil): silent partial write", i, op.N, o, L, n)
				}
				if n < 0 || n > op.N || o+n > L {
					return fmt.Errorf("op %d: failing Write(%d bytes) at window position %d of %d reports n=%d", i, op.N, o, L, n)
				}
				// the writer's position is the number of bytes it stored: a refused write that stored n bytes moves it by n,
				// so later writes stay contiguous with what is in the image
				_ = dead
			}
			copy(model[start+o:start+o+n], data[:n])
			o += n
			if err := cmp(fmt.Sprintf("after op %d write(%d)", i, op.N)); err != nil {
				return err
			}
		case "read":
			if rd == nil {
				rd = rom.BusReader(addr)
			}
			if eof {
				// a reader that reported EOF stays at EOF
				buf := make([]byte, op.N)
				if n, e := rd.Read(buf); n != 0 || (e != io.EOF && !(op.N == 0 && e == nil)) {
					return fmt.Errorf("op %d: reader at $%06X had reported EOF; another Read into %d bytes returned (%d, %v)", i, addr, op.N, n, e)
				}
				continue
			}
			buf := make([]byte, op.N)
			n, e := rd.Read(buf)
			if n < 0 || n > op.N {
				return fmt.Errorf("op %d: Read into %d bytes returned n=%d", i, op.N, n)
			}
			if got+n > L {
				return fmt.Errorf("op %d: reader at $%06X delivered %d bytes, window has only %d", i, addr, got+n, L)
			}
			if !bytes.Equal(buf[:n], model[start+got:start+got+n]) {
				return fmt.Errorf("op %d: reader at $%06X returned % x at window position %d, image has % x", i, addr, buf[:n], got, model[start+got:start+got+n])
			}
			got += n
			switch {
			case e == io.EOF:
				if got != L {
					return fmt.Errorf("op %d: reader at $%06X reported EOF after %d bytes, window has %d", i, addr, got, L)
				}
				eof = true
			case e != nil:
				return fmt.Errorf("op %d: reader returned error %v", i, e)
			case n == 0 && op.N > 0:
				return fmt.Errorf("op %d: reader returned (0, nil) for a %d-byte buffer", i, op.N)
			}
			if err := cmp(fmt.Sprintf("after op %d read", i)); err != nil {
				return err
			}
		}
	}
	// a fresh reader returns the whole window (including everything written), then EOF
	all, e := io.ReadAll(io.LimitReader(rom.BusReader(addr), int64(L)+8))
	if e != nil {
		return fmt.Errorf("fresh reader: %v", e)
	}
	if !bytes.Equal(all, model[start:start+L]) {
		return fmt.Errorf("fresh reader at $%06X returned %d bytes, want the %d bytes of file [$%06X,$%06X); first difference at %d", addr, len(all), L, start, start+L, firstDiff(all, model[start:start+L]))
	}
	if err := cmp("at end"); err != nil {
		return err
	}
	// the image is replaced by a longer one (an expanded ROM: one more bank) after readers and writers have been in use:
	// the new bank is inside the image now, its window can be written and read
	if size < 1<<20 && c.Banks < 128 {
		nb := uint32(len(rom.Contents)+0x7FFF) >> 15 // first bank that lies completely in the added part
		bigger := make([]byte, int(nb+1)<<15)
		copy(bigger, rom.Contents)
		for i := len(rom.Contents); i < len(bigger); i++ {
			bigger[i] = byte(i*7 + 3)
		}
		rom.Contents = bigger
		a2 := nb<<16 | 0x8000 | uint32(c.Off)&0x7FF0
		s2 := int(nb)<<15 + int(c.Off)&0x7FF0
		var n int
		var werr error
		if pe := rig.Safe(func() error { n, werr = rom.BusWriter(a2).Write([]byte{0xA1, 0xB2, 0xC3}); return nil }); pe != nil || n != 3 || werr != nil {
			return fmt.Errorf("after the image was replaced by one with another bank, Write(3 bytes) at $%06X (inside the image now) returned (%d, %v), panic %v", a2, n, werr, pe)
		}
		got := make([]byte, 5)
		var rerr error
		if pe := rig.Safe(func() error { n, rerr = io.ReadFull(rom.BusReader(a2), got); return nil }); pe != nil || n != 5 || rerr != nil {
			return fmt.Errorf("after the image was replaced by one with another bank, reading 5 bytes at $%06X returned (%d, %v), panic %v", a2, n, rerr, pe)
		}
		want := []byte{0xA1, 0xB2, 0xC3, byte((s2+3)*7 + 3), byte((s2+4)*7 + 3)}
		if !bytes.Equal(got, want) || !bytes.Equal(bigger[s2:s2+3], want[:3]) {
			return fmt.Errorf("after the image was replaced by one with another bank: wrote a1 b2 c3 at $%06X, the reader returns [% x] and file offset $%X holds [% x]", a2, got, s2, bigger[s2:s2+3])
		}
	}
	return nil
}

// c10Concurrent uses two readers and two writers of the same ROM at the same time (alternating
// calls): each must keep its own window and position.
func c10Concurrent(c c10Case, rom *snes.ROM, model []byte, addr uint32, start, L int) error {
	// second address: another offset in the ROM half of the last bank of the image
	bank2 := uint32(c.Banks - 1)
	off2 := uint32(0x8000 + (int(c.Off)*7+int(c.Bank)*0x1234)&0x7FF0)
	addr2 := bank2<<16 | off2
	start2 := int(bank2)*0x8000 + int(off2) - 0x8000
	L2 := int(bank2)*0x8000 + 0x8000 - start2 - (int(c.Bank)*0x8000 + 0x8000 - start - L) // same shortening as the first window
	if L2 < 0 {
		L2 = 0
	}
	ra, rb := rom.BusReader(addr), rom.BusReader(addr2)
	pa, pb := 0, 0
	for round := 0; round < 3; round++ {
		for k, rd := range []io.Reader{ra, rb} {
			st, ln, pos, ad := start, L, &pa, addr
			if k == 1 {
				st, ln, pos, ad = start2, L2, &pb, addr2
			}
			buf := make([]byte, 3)
			n, e := rd.Read(buf)
			if e != nil && e != io.EOF {
				return fmt.Errorf("two readers alive: reader at $%06X returned error %v", ad, e)
			}
			if *pos+n > ln || !bytes.Equal(buf[:n], model[st+*pos:st+*pos+n]) {
				return fmt.Errorf("two readers alive: reader at $%06X returned % x at window position %d, its window holds % x (the other reader is at $%06X)", ad, buf[:n], *pos, model[st+*pos:st+min(*pos+n, ln)], map[int]uint32{0: addr2, 1: addr}[k])
			}
			if n < 3 && *pos+n != ln {
				return fmt.Errorf("two readers alive: reader at $%06X delivered %d bytes at window position %d of %d", ad, n, *pos, ln)
			}
			*pos += n
		}
	}
	// two writers alive at once, writing two bytes alternately (only where both windows are disjoint and long enough)
	if L >= 4 && L2 >= 4 && (start+4 <= start2 || start2+4 <= start) {
		wa, wb := rom.BusWriter(addr), rom.BusWriter(addr2)
		saved := append([]byte(nil), model...)
		for round := 0; round < 2; round++ {
			for k, w := range []io.Writer{wa, wb} {
				st, ad := start, addr
				if k == 1 {
					st, ad = start2, addr2
				}
				data := []byte{byte(0xA0 + 2*round + k), byte(0x50 + round)}
				n, e := w.Write(data)
				if n != 2 || e != nil {
					return fmt.Errorf("two writers alive: Write(2 bytes) #%d at $%06X returned (%d, %v)", round, ad, n, e)
				}
				copy(model[st+2*round:], data)
				if !bytes.Equal(rom.Contents, model) {
					return fmt.Errorf("two writers alive: after write #%d at $%06X the image differs from the model at file offset $%X", round, ad, firstDiff(rom.Contents, model))
				}
			}
		}
		// undo, so the rest of the case starts from the pristine image
		copy(model, saved)
		copy(rom.Contents, saved)
	}
	return nil
}

func min(a, b int) int {
	if a < b {
		return a
	}
	return b
}

// plainReader hides every optional interface of the wrapped reader (no WriteTo), like a file or a decompressor.
type plainReader struct{ r io.Reader }

func (p plainReader) Read(b []byte) (int, error) { return p.r.Read(b) }

func firstDiff(a, b []byte) int {
	for i := 0; i < len(a) && i < len(b); i++ {
		if a[i] != b[i] {
			return i
		}
	}
	if len(a) < len(b) {
		return len(a)
	}
	return len(b)
}

const c10Finding = "rom-window-last-byte"

func c10Check(c c10Case) error {
	if c.Banks < 1 || int(c.Bank) >= c.Banks {
		return fmt.Errorf("malformed case")
	}
	err := c10Run(c, 0)
	if err == nil {
		return nil
	}
	if _, listed := rig.IsKnown("C10", c10Finding); listed {
		err1 := c10Run(c, 1)
		if err1 == nil {
			return &rig.KnownErr{Finding: c10Finding, What: "reader/writer windows end one byte before the end of the bank, so the bank's last byte ($xx:FFFF) can be neither read nor written (pinned by baseline test TestROM_BusReader_Fail_Boundary)"}
		}
		// not (only) the listed finding: what deviates even from the model with the shortened window is the news
		return fmt.Errorf("%v [with the listed finding %s allowed for]", err1, c10Finding)
	}
	return err
}

func c10Gen(t *rapid.T) c10Case {
	c := c10Case{Banks: 1}
	if rapid.IntRange(0, 2).Draw(t, "multi") == 0 {
		c.Banks = rapid.IntRange(1, 8).Draw(t, "banks")
	}
	big := rapid.IntRange(0, 399).Draw(t, "big") == 171
	if big {
		// images beyond 4 MiB: banks $80 and up lie inside the image
		c.Banks = rapid.SampledFrom([]int{129, 130, 192, 255, 256}).Draw(t, "big-banks")
	}
	if rapid.IntRange(0, 3).Draw(t, "has-tail") == 0 {
		c.Tail = rapid.IntRange(1, 0x7FFF).Draw(t, "tail")
	}
	c.Bank = uint32(rapid.IntRange(0, c.Banks-1).Draw(t, "bank"))
	if rapid.IntRange(0, 3).Draw(t, "header-elsewhere") == 0 {
		c.Hdr = rapid.IntRange(1, 4).Draw(t, "hdr")
	}
	if big && rapid.IntRange(0, 3).Draw(t, "high-bank") != 0 {
		c.Bank = uint32(rapid.IntRange(0x80, c.Banks-1).Draw(t, "bank-high"))
	}
	switch rapid.IntRange(0, 4).Draw(t, "off-kind") {
	case 0:
		c.Off = rapid.SampledFrom([]uint32{0x8000, 0x8001, 0xFFF0, 0xFFF8, 0xFFFC, 0xFFFD, 0xFFFE, 0xFFFF}).Draw(t, "off")
	case 1:
		c.Off = rapid.Uint32Range(0xFFE0, 0xFFFF).Draw(t, "off")
	case 2:
		c.Off = rapid.Uint32Range(0x8000, 0xFFFF).Draw(t, "off")
	case 3:
		c.Off = rapid.SampledFrom([]uint32{0, 1, 0x7FFE, 0x7FFF, 0x2000}).Draw(t, "off")
	default:
		c.Off = rapid.Uint32Range(0, 0xFFFF).Draw(t, "off")
	}
	L := 0
	if c.Off >= 0x8000 {
		L = 0x10000 - int(c.Off)
	}
	nops := rapid.IntRange(1, 8).Draw(t, "nops")
	o := 0
	for i := 0; i < nops; i++ {
		k := rapid.IntRange(0, 9).Draw(t, "op")
		switch {
		case k <= 5:
			// write; length solved against the remaining window
			rem := L - o
			var n int
			switch rapid.IntRange(0, 6).Draw(t, "len-kind") {
			case 6:
				// lengths that do not fit 16 bits (the window never holds that much: the write must be refused)
				n = rapid.SampledFrom([]int{0x10000, 0x10001, 0x10000 + rem, 0x10000 + rem - 1, 0x17fff, 0x20000, 0x10000 + 3}).Draw(t, "huge")
			case 0:
				n = rem - 1
			case 1:
				n = rem
			case 2:
				n = rem + rapid.IntRange(1, 3).Draw(t, "over")
			case 3:
				n = rapid.IntRange(0, 4).Draw(t, "small")
			case 4:
				n = rem - 2
			default:
				n = rapid.IntRange(0, rem+4).Draw(t, "len")
			}
			if n < 0 {
				n = 0
			}
			kind := "write"
			switch v := rapid.IntRange(0, 7).Draw(t, "via"); {
			case n > 0 && n <= 32768 && v <= 1:
				kind = "copy"
			case n > 1 && v == 2:
				kind = "alias"
			case v == 3:
				kind = "string"
			}
			c.Ops = append(c.Ops, c10Op{Kind: kind, N: n, Seed: rapid.Uint32().Draw(t, "data")})
			if o+n <= L {
				o += n
			}
		case k == 6 && rapid.Bool().Draw(t, "grow"):
			c.Ops = append(c.Ops, c10Op{Kind: "grow"})
		case k == 6:
			c.Ops = append(c.Ops, c10Op{Kind: "reopen"})
			o = 0
		default:
			c.Ops = append(c.Ops, c10Op{Kind: "read", N: rapid.SampledFrom([]int{1, 2, 3, 16, 4096, 0x8000, 0x10000}).Draw(t, "buf")})
		}
	}
	return c
}

func init() {
	rig.RegisterReplay("C10", func(data []byte) error {
		var rf rig.ReplayFile
		if err := json.Unmarshal(data, &rf); err != nil {
			return err
		}
		var c c10Case
		if err := json.Unmarshal(rf.Case, &c); err != nil {
			return err
		}
		return c10Check(c)
	})
}

func TestC10(t *testing.T) {
	rig.Main(t, "C10", "rapid histories over ROM.BusWriter/BusReader: image of 1-8 banks (+tail; 129-256 banks in 0.1% of the cases, then mostly addressed at banks >= $80), writes from fresh buffers, through io.Copy and from overlapping slices of the image itself, bus address with edge-biased offset, up to 8 ops "+
		"(writes whose lengths are solved to end 2/1 before, at and 1-3 beyond the window end, writer re-opens, reads with drawn buffer sizes) "+
		"against a reference window model; the whole image is compared with the model after every call; plus one write/read history in each of the 256 banks of an 8 MiB image; every history ends with the image replaced by one that is a bank longer, whose new bank is written and read; one writer and one reader are used for 255-520 calls.  Non-trivial = offset >= $8000 and at least one "+
		"write, or any op at an offset below $8000; distinct = hash(case).",
		func(r *rig.Run) {
			ev := r.Ev
			r.Rapid("rapid", rig.Pick(20000, 80000), func(t *rapid.T) {
				c := c10Gen(t)
				r.Check(t, "rapid", c, func() error { return c10Check(c) })
				nw, over := 0, false
				L, o := 0, 0
				if c.Off >= 0x8000 {
					L = 0x10000 - int(c.Off)
				}
				for _, op := range c.Ops {
					if op.N >= 0x10000 {
						ev.Class("write-of-64KiB-or-more")
					}
					if op.Kind == "alias" {
						ev.Class("written-slice-overlaps-its-destination-in-the-image")
					}
					if op.Kind == "write" || op.Kind == "copy" || op.Kind == "alias" || op.Kind == "string" {
						nw++
						if o+op.N > L {
							over = true
						} else {
							o += op.N
						}
					}
					if op.Kind == "reopen" {
						o = 0
					}
				}
				raw, _ := json.Marshal(c)
				ev.Case(nw > 0 || c.Off < 0x8000, rig.Hash64(raw), func() interface{} { return c })
				if c.Off < 0x8000 {
					ev.Class("offset-below-8000")
				} else {
					if over {
						ev.Class("write-beyond-window")
					}
					if o == L && nw > 0 {
						ev.Class("write-ends-exactly-at-bank-end")
					}
					if o == L-1 && nw > 0 {
						ev.Class("write-ends-one-before-bank-end")
					}
				}
				if c.Banks > 1 {
					ev.Class("multi-bank")
				}
				if c.Hdr != 0 {
					ev.Class("HeaderOffset-elsewhere-or-ROM-built-as-a-struct-literal")
				}
				if c.Bank >= 0x80 {
					ev.Class("bank>=$80-of-an-image-beyond-4MiB")
				}
			})
			// every bank of an 8 MiB image once: a window is the same 32 KiB wherever in the image it lies
			if rig.Shard() == 2%rig.Shards() {
				for b := 0; b < 256; b++ {
					c := c10Case{Banks: 256, Bank: uint32(b), Off: []uint32{0x8000, 0xFFF8, 0xC123}[b%3],
						Ops: []c10Op{{Kind: "write", N: 5, Seed: uint32(b)*2654435761 + 1}, {Kind: "read", N: 9}}}
					if !r.CheckSweep("rapid", c, func() error { return c10Check(c) }) {
						break
					}
					ev.Case(true, rig.Hash64("every-bank", b), func() interface{} { return c })
					ev.Class("every-bank-of-an-8MiB-image")
				}
			}
			// one writer used for several hundred calls (one byte, nothing, two bytes, ...), one reader for as many
			if rig.Shard() == 1%rig.Shards() {
				for k, n := range []int{255, 256, 257, 300, 520} {
					c := c10Case{Banks: 2, Bank: 1, Off: 0x8100}
					for i := 0; i < n; i++ {
						c.Ops = append(c.Ops, c10Op{Kind: "write", N: []int{1, 0, 2, 1}[(i+k)%4], Seed: uint32(i)*40503 + 7})
					}
					for i := 0; i < n; i++ {
						c.Ops = append(c.Ops, c10Op{Kind: "read", N: 1 + i%3})
					}
					if !r.CheckSweep("rapid", c, func() error { return c10Check(c) }) {
						break
					}
					ev.Case(true, rig.Hash64("many-calls", n), nil)
					ev.Class("several-hundred-calls-on-one-writer-and-one-reader")
				}
			}
			ev.Assumption("after a write that reported an error and n stored bytes the writer continues at position+n (successive stored writes stay contiguous)")
		})
}
