package props

import (
	"encoding/json"
	"fmt"
	"testing"

	"github.com/alttpo/snes/emulator/bus"
	"github.com/alttpo/snes/emulator/memory"
	"pgregory.net/rapid"

	"verif/harness/rig"
)

// C13 — bus routing follows Attach exactly and EaDump agrees with byte-wise reads.

type c13Op struct {
	Kind  string `json:"kind"` // attach, misattach, read, write, dump, read24 (three bytes, wrapping inside the bank), copy (continue on a copy of the Bus value; the bus left behind keeps its routing)
	Mem   int    `json:"mem,omitempty"`
	Start uint32 `json:"start"`
	End   uint32 `json:"end,omitempty"`
	Val   byte   `json:"val,omitempty"`
}

type c13Case struct {
	Ops []c13Op `json:"ops"`
}

// stub is a recording memory.Memory: Read returns the last written value or Mix(id, addr).
type c13Stub struct {
	id  int
	w   map[uint32]byte
	log []rig.Access
}

func (s *c13Stub) Read(a uint32) byte {
	v, ok := s.w[a]
	if !ok {
		v = rig.Mix(uint32(s.id)*7919+1, a)
	}
	s.log = append(s.log, rig.Access{Addr: a, Val: v})
	return v
}
func (s *c13Stub) Write(a uint32, v byte) {
	s.w[a] = v
	s.log = append(s.log, rig.Access{Addr: a, Val: v, Write: true})
}
func (s *c13Stub) peek(a uint32) byte {
	if v, ok := s.w[a]; ok {
		return v
	}
	return rig.Mix(uint32(s.id)*7919+1, a)
}
func (s *c13Stub) Shutdown() {}

// Size is a property of the device, not of the range it is attached over (a small device may be mirrored over a
// larger range, a large one attached partially): routing must not depend on it.
func (s *c13Stub) Size() uint32       { return []uint32{1 << 24, 0x20, 0x2000, 0}[s.id&3] }
func (s *c13Stub) Clear()             {}
func (s *c13Stub) Dump(uint32) []byte { return nil }

type c13Iv struct {
	lo, hi uint32
	mem    int
}
type c13Owner struct{ ivs []c13Iv }

func (o *c13Owner) add(lo, hi uint32, mem int) { o.ivs = append(o.ivs, c13Iv{lo, hi, mem}) }
func (o *c13Owner) get(blk uint32) (int, bool) {
	for i := len(o.ivs) - 1; i >= 0; i-- {
		if blk >= o.ivs[i].lo && blk <= o.ivs[i].hi {
			return o.ivs[i].mem, true
		}
	}
	return 0, false
}

func c13Check(c c13Case) error {
	b, err := bus.New()
	if err != nil {
		return err
	}
	stubs := make([]*c13Stub, 4)
	for i := range stubs {
		stubs[i] = &c13Stub{id: i, w: map[uint32]byte{}}
	}
	owner := c13Owner{} // attach history; owner of a 16-byte block = last interval covering it
	clearLogs := func() {
		for _, s := range stubs {
			s.log = s.log[:0]
		}
	}
	// after an access through the bus: exactly `want` accesses, all on stub `own`
	expectOnly := func(what string, own int, want []rig.Access) error {
		for i, s := range stubs {
			if i != own {
				if len(s.log) != 0 {
					return fmt.Errorf("%s: memory #%d was accessed (%+v) although memory #%d owns the address", what, i, s.log[0], own)
				}
				continue
			}
			if len(s.log) != len(want) {
				return fmt.Errorf("%s: owner memory #%d saw %d accesses %+v, want %+v", what, own, len(s.log), s.log, want)
			}
			for j := range want {
				if s.log[j] != want[j] {
					return fmt.Errorf("%s: owner memory #%d saw %+v, want %+v (full unmodified bus address)", what, own, s.log[j], want[j])
				}
			}
		}
		return nil
	}
	// buses left behind by a copy op, with the routing they had then
	type behind struct {
		b     *bus.Bus
		owner c13Owner
		at    int
	}
	var left []behind
	var probes []uint32
	for i, op := range c.Ops {
		what := fmt.Sprintf("op %d %s", i, op.Kind)
		clearLogs()
		probes = append(probes, op.Start, op.End)
		switch op.Kind {
		case "inspect":
			_ = rig.Safe(func() error { _ = b.String(); _ = fmt.Sprint(b); return nil })
		case "copy":
			// Bus is used as a value (emulator.System embeds one): a copy is an independent bus with the same routing
			nb := new(bus.Bus)
			*nb = *b
			left = append(left, behind{b, c13Owner{ivs: append([]c13Iv(nil), owner.ivs...)}, i})
			b = nb
		case "attach":
			if op.End+1 == op.Start {
				// an empty range (both ends aligned): accepted or rejected, it covers no address and changes no routing
				_ = rig.Safe(func() error { return b.Attach(stubs[op.Mem], "m", op.Start, op.End) })
				break
			}
			if err := b.Attach(stubs[op.Mem], "m", op.Start, op.End); err != nil {
				return fmt.Errorf("%s: Attach($%06X,$%06X) of an aligned range failed: %v", what, op.Start, op.End, err)
			}
			owner.add(op.Start>>4, op.End>>4, op.Mem)
		case "misattach":
			if err := b.Attach(stubs[op.Mem], "m", op.Start, op.End); err == nil {
				return fmt.Errorf("%s: Attach($%06X,$%06X) of a misaligned range was accepted", what, op.Start, op.End)
			}
			// routing must be unchanged: probe both ends of the rejected range
			for _, a := range []uint32{op.Start, op.End, op.Start &^ 15, op.End | 15} {
				if a >= 1<<24 {
					continue
				}
				own, ok := owner.get(a >> 4)
				var got byte
				pe := rig.Safe(func() error { got = b.EaRead(a); return nil })
				if !ok {
					if pe == nil {
						return fmt.Errorf("%s: after the rejected Attach, unattached address $%06X became readable", what, a)
					}
				} else if pe != nil || got != stubs[own].peek(a) {
					return fmt.Errorf("%s: after the rejected Attach, read of $%06X no longer reaches memory #%d (%v)", what, a, own, pe)
				}
			}
		case "read":
			own, ok := owner.get(op.Start >> 4)
			var got byte
			pe := rig.Safe(func() error { got = b.EaRead(op.Start); return nil })
			if !ok {
				if pe == nil {
					return fmt.Errorf("%s: EaRead($%06X) of a never-attached address returned %02x instead of failing", what, op.Start, got)
				}
				if err := expectOnly(what, -1, nil); err != nil {
					return err
				}
				break
			}
			if pe != nil {
				return fmt.Errorf("%s: EaRead($%06X) failed (%v) although memory #%d is attached there", what, op.Start, pe, own)
			}
			want := stubs[own].peek(op.Start)
			if got != want {
				return fmt.Errorf("%s: EaRead($%06X) = %02x, memory #%d holds %02x", what, op.Start, got, own, want)
			}
			if err := expectOnly(what, own, []rig.Access{{Addr: op.Start, Val: want}}); err != nil {
				return err
			}
		case "write":
			own, ok := owner.get(op.Start >> 4)
			pe := rig.Safe(func() error { b.EaWrite(op.Start, op.Val); return nil })
			if !ok {
				if pe == nil {
					return fmt.Errorf("%s: EaWrite($%06X) of a never-attached address did not fail", what, op.Start)
				}
				if err := expectOnly(what, -1, nil); err != nil {
					return err
				}
				break
			}
			if pe != nil {
				return fmt.Errorf("%s: EaWrite($%06X) failed (%v) although memory #%d is attached there", what, op.Start, pe, own)
			}
			if err := expectOnly(what, own, []rig.Access{{Addr: op.Start, Val: op.Val, Write: true}}); err != nil {
				return err
			}
		case "read24":
			bank, off := op.Start>>16, uint16(op.Start)
			var want uint32
			var wantAcc [4][]rig.Access
			allOwned := true
			for j := uint16(0); j < 3; j++ {
				a := bank<<16 | uint32(off+j)
				own, ok := owner.get(a >> 4)
				if !ok {
					allOwned = false
					break
				}
				v := stubs[own].peek(a)
				want |= uint32(v) << (8 * j)
				wantAcc[own] = append(wantAcc[own], rig.Access{Addr: a, Val: v})
			}
			var got uint32
			pe := rig.Safe(func() error { got = b.EaRead24_wrap(byte(bank), off); return nil })
			if !allOwned {
				if pe == nil {
					return fmt.Errorf("%s: EaRead24_wrap($%02X,$%04X) returned $%06X although one of its three bytes is not attached", what, bank, off, got)
				}
				break
			}
			if pe != nil {
				return fmt.Errorf("%s: EaRead24_wrap($%02X,$%04X) failed (%v) although all three bytes are attached", what, bank, off, pe)
			}
			if got != want {
				return fmt.Errorf("%s: EaRead24_wrap($%02X,$%04X) = $%06X, three single reads (wrapping inside the bank) give $%06X", what, bank, off, got, want)
			}
			for si, st := range stubs {
				if len(st.log) != len(wantAcc[si]) {
					return fmt.Errorf("%s: EaRead24_wrap($%02X,$%04X): memory #%d saw %+v, want %+v", what, bank, off, si, st.log, wantAcc[si])
				}
				for j := range st.log {
					if st.log[j] != wantAcc[si][j] {
						return fmt.Errorf("%s: EaRead24_wrap($%02X,$%04X): memory #%d saw %+v, want %+v (each byte goes to its own owner with the full address)", what, bank, off, si, st.log[j], wantAcc[si][j])
					}
				}
			}
		case "dump":
			n := int(int64(op.End) - int64(op.Start) + 1) // 0 for the empty range end = start-1
			const sentinel, canary = 0xA5, 0x5A
			buf := make([]byte, n+8)
			for j := range buf {
				buf[j] = sentinel
			}
			for j := n; j < n+8; j++ {
				buf[j] = canary
			}
			// expected contents computed from the model (what a single read of start+i returns)
			want := make([]byte, n)
			for j := 0; j < n; j++ {
				a := op.Start + uint32(j)
				if own, ok := owner.get(a >> 4); ok {
					want[j] = stubs[own].peek(a)
				} else {
					want[j] = sentinel
				}
			}
			var got int
			if pe := rig.Safe(func() error { got = b.EaDump(op.Start, op.End, buf[:n+8]); return nil }); pe != nil {
				return fmt.Errorf("%s: EaDump($%06X,$%06X) failed: %v", what, op.Start, op.End, pe)
			}
			if got != n {
				return fmt.Errorf("%s: EaDump($%06X,$%06X) returned %d, want %d", what, op.Start, op.End, got, n)
			}
			for j := 0; j < n; j++ {
				if buf[j] != want[j] {
					a := op.Start + uint32(j)
					own, ok := owner.get(a >> 4)
					return fmt.Errorf("%s: EaDump($%06X,$%06X) position %d (address $%06X, owner #%d attached=%v) holds %02x, a single read gives %02x", what, op.Start, op.End, j, a, own, ok, buf[j], want[j])
				}
			}
			for j := n; j < n+8; j++ {
				if buf[j] != canary {
					return fmt.Errorf("%s: EaDump wrote past the end of the range (buffer position %d)", what, j)
				}
			}
			for si, s := range stubs {
				for _, ac := range s.log {
					if own, ok := owner.get(ac.Addr >> 4); !ok || own != si || ac.Write || ac.Addr < op.Start || ac.Addr > op.End {
						return fmt.Errorf("%s: EaDump($%06X,$%06X) asked memory #%d for address $%06X (write=%v) which it does not own inside the range", what, op.Start, op.End, si, ac.Addr, ac.Write)
					}
				}
			}
		default:
			return fmt.Errorf("bad op %q", op.Kind)
		}
	}
	// the buses left behind still route as they did when they were copied
	for _, l := range left {
		for _, a := range probes {
			if a >= 1<<24 {
				continue
			}
			clearLogs()
			own, ok := l.owner.get(a >> 4)
			var got byte
			pe := rig.Safe(func() error { got = l.b.EaRead(a); return nil })
			if !ok {
				if pe == nil {
					return fmt.Errorf("the bus that was copied at op %d later answers a read of $%06X (%02x) although nothing was ever attached there on it: calls on the copy changed it", l.at, a, got)
				}
				continue
			}
			if pe != nil {
				return fmt.Errorf("the bus that was copied at op %d no longer reaches memory #%d at $%06X (%v): calls on the copy changed it", l.at, own, a, pe)
			}
			if err := expectOnly(fmt.Sprintf("read of $%06X on the bus that was copied at op %d", a, l.at), own, []rig.Access{{Addr: a, Val: stubs[own].peek(a)}}); err != nil {
				return fmt.Errorf("%v (calls on the copy changed the original)", err)
			}
		}
	}
	return nil
}

func c13Gen(t *rapid.T) c13Case {
	anchors := []uint32{
		rapid.SampledFrom([]uint32{0x000100, 0x7E0000, 0x00FFF0, 0x800000}).Draw(t, "anchor0"),
		rapid.Uint32Range(0x10, 0xFFFFE).Draw(t, "anchor1") << 4,
		0xFFFF80, // blocks up to the very top of the address space
	}
	cur := 0
	blk := func(label string) uint32 { // an aligned address near the current anchor
		a := anchors[cur]
		d := rapid.IntRange(-8, 8).Draw(t, label+"-blk")
		v := int64(a) + int64(d)*16
		if v < 0 {
			v = 0
		}
		if v > 0xFFFFF0 {
			v = 0xFFFFF0
		}
		return uint32(v)
	}
	addr := func(label string) uint32 {
		v := blk(label) + uint32(rapid.IntRange(0, 15).Draw(t, label+"-low"))
		return v
	}
	var c c13Case
	n := rapid.IntRange(1, rig.Pick(25, 60)).Draw(t, "nops")
	copyAt := -1
	if rapid.IntRange(0, 7).Draw(t, "with-copy") == 0 {
		copyAt = rapid.IntRange(0, n-1).Draw(t, "copy-at")
	}
	for i := 0; i < n; i++ {
		if i == copyAt {
			c.Ops = append(c.Ops, c13Op{Kind: "copy"})
		}
		if rapid.IntRange(0, 9).Draw(t, "inspect") == 0 {
			c.Ops = append(c.Ops, c13Op{Kind: "inspect"}) // the bus is printed in between (String, %v): nothing may change
		}
		cur = rapid.IntRange(0, len(anchors)-1).Draw(t, "anchor")
		switch k := rapid.IntRange(0, 11).Draw(t, "op"); {
		case k <= 3:
			s := blk("s")
			if rapid.IntRange(0, 9).Draw(t, "far") == 0 {
				cur = rapid.IntRange(0, len(anchors)-1).Draw(t, "anchor2")
			}
			e := blk("e")
			if e < s {
				s, e = e, s
			}
			if s >= 16 && rapid.IntRange(0, 11).Draw(t, "empty-range") == 5 {
				// a device of size zero attached as (base, base+size-1): both ends are aligned, the range holds no address
				c.Ops = append(c.Ops, c13Op{Kind: "attach", Mem: rapid.IntRange(0, 3).Draw(t, "mem"), Start: s, End: s - 1})
				continue
			}
			c.Ops = append(c.Ops, c13Op{Kind: "attach", Mem: rapid.IntRange(0, 3).Draw(t, "mem"), Start: s, End: e + 15})
		case k == 4:
			s, e := blk("s"), blk("e")
			if e < s {
				s, e = e, s
			}
			e += 15
			if k := rapid.IntRange(0, 2).Draw(t, "mis-both"); k == 0 && e+16 < 0xFFFFFF {
				// both ends shifted by the same amount: the length is still a multiple of 16
				sh := uint32(rapid.IntRange(1, 15).Draw(t, "mis"))
				s += sh
				e += sh
			} else if rapid.Bool().Draw(t, "mis-start") {
				s += uint32(rapid.IntRange(1, 15).Draw(t, "mis"))
				if s > e {
					e = s | 15
				}
			} else {
				e -= uint32(rapid.IntRange(1, 15).Draw(t, "mis"))
			}
			c.Ops = append(c.Ops, c13Op{Kind: "misattach", Mem: rapid.IntRange(0, 3).Draw(t, "mem"), Start: s, End: e})
		case k == 5 && rapid.Bool().Draw(t, "r24"):
			a := addr("a")
			if rapid.IntRange(0, 3).Draw(t, "r24-edge") == 0 {
				a = a&^0xf | uint32(rapid.IntRange(13, 15).Draw(t, "r24-low")) // the three bytes straddle two blocks
			}
			c.Ops = append(c.Ops, c13Op{Kind: "read24", Start: a})
		case k <= 6:
			c.Ops = append(c.Ops, c13Op{Kind: "read", Start: addr("a")})
		case k <= 8:
			c.Ops = append(c.Ops, c13Op{Kind: "write", Start: addr("a"), Val: rapid.Byte().Draw(t, "val")})
			if rapid.IntRange(0, 3).Draw(t, "same-write-again") == 0 {
				// the same byte to the same address once more (a device counts its writes; a memory attached in between must get it)
				c.Ops = append(c.Ops, c.Ops[len(c.Ops)-1])
			}
		default:
			s := addr("s")
			ln := rapid.IntRange(0, 80).Draw(t, "dump-len")
			if ln == 0 && s == 0 {
				ln = 1
			}
			e := s + uint32(ln) - 1
			if e > 0xFFFFFF {
				e = 0xFFFFFF
			}
			c.Ops = append(c.Ops, c13Op{Kind: "dump", Start: s, End: e})
		}
	}
	return c
}

// c13RealMem: the library's own memory.RAM / *memory.ROM objects (attached with non-zero offsets, side by side)
// dumped at every alignment across their boundary must agree with byte-wise reads.
type c13RealCase struct {
	Start uint32 `json:"start"`
	Len   int    `json:"len"`
}

// c13Forward is a mirror device: its reads and writes are forwarded through the bus to another address.
type c13Forward struct {
	b        *bus.Bus
	from, to uint32
	c13Stub
}

func (f *c13Forward) Read(a uint32) byte     { return f.b.EaRead(a - f.from + f.to) }
func (f *c13Forward) Write(a uint32, v byte) { f.b.EaWrite(a-f.from+f.to, v) }

func c13RealCheck(c c13RealCase) error {
	b, _ := bus.New()
	romData, ramData := make([]byte, 0x100), make([]byte, 0x100)
	for i := range romData {
		romData[i] = byte(0x80 | i&0x7f)
		ramData[i] = byte(i & 0x7f)
	}
	if err := b.Attach(memory.NewROM(romData, 0x7F00), "rom", 0x7F00, 0x7FFF); err != nil {
		return err
	}
	if err := b.Attach(memory.NewRAM(ramData, 0x8000), "ram", 0x8000, 0x80FF); err != nil {
		return err
	}
	// a memory.ROM attached over the upper half of a RAM: writes there go to the ROM (most recently attached), which
	// ignores them; the RAM underneath must not receive them
	under := make([]byte, 0x200)
	for i := range under {
		under[i] = 0x11
	}
	if err := b.Attach(memory.NewRAM(under, 0x7E00), "under", 0x7E00, 0x7FFF); err != nil {
		return err
	}
	if err := b.Attach(memory.NewROM(romData, 0x7F00), "rom", 0x7F00, 0x7FFF); err != nil {
		return err
	}
	if a := c.Start; a >= 0x7F00 && a <= 0x7FFF {
		before := b.EaRead(a)
		if pe := rig.Safe(func() error { b.EaWrite(a, before^0xFF); return nil }); pe != nil {
			return fmt.Errorf("EaWrite($%06X) on a memory.ROM attached over a RAM failed: %v", a, pe)
		}
		for i, v := range under {
			if v != 0x11 {
				return fmt.Errorf("EaWrite($%06X) went to the RAM attached earlier (its byte $%X changed to %02x) although a memory.ROM was attached over that range afterwards", a, i, v)
			}
		}
		if got := b.EaRead(a); got != before && got != before^0xFF {
			return fmt.Errorf("after EaWrite($%06X) a read returns %02x (was %02x)", a, got, before)
		}
		romData[a-0x7F00] = before
	}
	// a mirror of the RAM's first 64 bytes, implemented by forwarding through the bus
	if err := b.Attach(&c13Forward{b: b, from: 0x8100, to: 0x8000}, "mirror", 0x8100, 0x813F); err != nil {
		return err
	}
	end := c.Start + uint32(c.Len) - 1
	buf := make([]byte, c.Len+4)
	for i := range buf {
		buf[i] = 0xA5
	}
	var n int
	if pe := rig.Safe(func() error { n = b.EaDump(c.Start, end, buf); return nil }); pe != nil {
		return fmt.Errorf("EaDump($%06X,$%06X) over memory.ROM/memory.RAM objects failed: %v", c.Start, end, pe)
	}
	if n != c.Len {
		return fmt.Errorf("EaDump($%06X,$%06X) returned %d, want %d", c.Start, end, n, c.Len)
	}
	for i := 0; i < c.Len; i++ {
		a := c.Start + uint32(i)
		want := byte(0xA5)
		if a >= 0x7E00 && a <= 0x813F {
			want = b.EaRead(a)
		}
		if buf[i] != want {
			return fmt.Errorf("EaDump($%06X,$%06X) position %d (address $%06X) holds %02x, a single read gives %02x (memory.RAM at $7E00-$7FFF with a memory.ROM over $7F00-$7FFF, memory.RAM at $8000, forwarding mirror of $8000-$803F at $8100)", c.Start, end, i, a, buf[i], want)
		}
	}
	for i := c.Len; i < len(buf); i++ {
		if buf[i] != 0xA5 {
			return fmt.Errorf("EaDump wrote past the range")
		}
	}
	return nil
}

// c13LongCheck: a history of 70000 Attach calls on one bus (a 16-byte window re-attached alternately to two memories);
// a range attached at the start, a hole and the window itself are probed on the way and around the 2^16-th call.
func c13LongCheck() error {
	b, _ := bus.New()
	st := []*c13Stub{{id: 0, w: map[uint32]byte{}}, {id: 1, w: map[uint32]byte{}}, {id: 2, w: map[uint32]byte{}}, {id: 3, w: map[uint32]byte{}}}
	if err := b.Attach(st[2], "fixed", 0x001000, 0x001FFF); err != nil {
		return err
	}
	// the window goes round three memories, so that any two probes 256 (or 65536) Attach calls apart see different owners
	owner := func(i int) *c13Stub { return st[[]int{0, 1, 3}[i%3]] }
	probe := func(i int, own *c13Stub) error {
		for _, p := range []struct {
			a   uint32
			own *c13Stub
		}{{0x004003, own}, {0x001234, st[2]}, {0x001FFF, st[2]}, {0x008000, nil}, {0x000FFF, nil}, {0x004010, nil}} {
			var got byte
			pe := rig.Safe(func() error { got = b.EaRead(p.a); return nil })
			switch {
			case p.own == nil && pe == nil:
				return fmt.Errorf("after %d Attach calls a read of the never-attached address $%06X returns %02x instead of failing", i, p.a, got)
			case p.own != nil && (pe != nil || got != p.own.peek(p.a)):
				return fmt.Errorf("after %d Attach calls a read of $%06X gives %02x (%v), memory #%d attached there holds %02x", i, p.a, got, pe, p.own.id, p.own.peek(p.a))
			}
		}
		buf := []byte{0xA5, 0xA5, 0xA5, 0xA5, 0xA5, 0xA5, 0xA5, 0xA5}
		if n := b.EaDump(0x003FFC, 0x004003, buf); n != 8 {
			return fmt.Errorf("after %d Attach calls EaDump($003FFC,$004003) returned %d", i, n)
		}
		for j, v := range buf {
			want := byte(0xA5)
			if j >= 4 {
				want = own.peek(0x003FFC + uint32(j))
			}
			if v != want {
				return fmt.Errorf("after %d Attach calls EaDump($003FFC,$004003) position %d holds %02x, want %02x", i, j, v, want)
			}
		}
		// the last access of a probe is one inside the window (the next probe's first access is the same address)
		if got := b.EaRead(0x004003); got != own.peek(0x004003) {
			return fmt.Errorf("after %d Attach calls a read of $004003 gives %02x, memory #%d attached there holds %02x", i, got, own.id, own.peek(0x004003))
		}
		return nil
	}
	for i := 1; i <= 70000; i++ {
		if err := b.Attach(owner(i), "window", 0x004000, 0x00400F); err != nil {
			return fmt.Errorf("Attach #%d: %v", i, err)
		}
		if i%4099 == 0 || (i >= 65530 && i <= 65540) || i == 70000 || i == 255 || i == 256 || i == 257 || (i >= 300 && i <= 2348 && (i-300)%256 == 0) {
			if i >= 300 && i <= 2348 && (i-300)%256 == 0 {
				// (first the window, before any other line is touched)
				if got := b.EaRead(0x004003); got != owner(i).peek(0x004003) {
					return fmt.Errorf("after %d Attach calls (256 after the previous look at it) a read of $004003 gives %02x, memory #%d attached there holds %02x", i, got, owner(i).id, owner(i).peek(0x004003))
				}
			}
			if err := probe(i+1, owner(i)); err != nil {
				return err
			}
		}
	}
	return nil
}

// c13BigDumpCheck: dumps of 64 KiB and more over a bus whose only memory starts in the middle of a bank.
func c13BigDumpCheck() error {
	b, _ := bus.New()
	ram := &c13Stub{id: 3, w: map[uint32]byte{}}
	if err := b.Attach(ram, "ram", 0x012000, 0x013FFF); err != nil {
		return err
	}
	for _, r := range [][2]uint32{{0x010000, 0x02000F}, {0x010000, 0x01FFFF}, {0x00FFF1, 0x020000}, {0x011FFF, 0x014000}} {
		n := int(r[1]-r[0]) + 1
		buf := make([]byte, n)
		for i := range buf {
			buf[i] = 0xA5
		}
		var got int
		if pe := rig.Safe(func() error { got = b.EaDump(r[0], r[1], buf); return nil }); pe != nil {
			return fmt.Errorf("EaDump($%06X,$%06X) failed: %v", r[0], r[1], pe)
		}
		if got != n {
			return fmt.Errorf("EaDump($%06X,$%06X) returned %d, want %d", r[0], r[1], got, n)
		}
		for i, v := range buf {
			a := r[0] + uint32(i)
			want := byte(0xA5)
			if a >= 0x012000 && a <= 0x013FFF {
				want = ram.peek(a)
			}
			if v != want {
				return fmt.Errorf("EaDump($%06X,$%06X) position %d (address $%06X) holds %02x, a single read gives %02x (memory attached over $012000-$013FFF only)", r[0], r[1], i, a, v, want)
			}
		}
	}
	return nil
}

func init() {
	rig.RegisterReplay("C13", func(data []byte) error {
		var rf rig.ReplayFile
		if err := json.Unmarshal(data, &rf); err != nil {
			return err
		}
		if rf.Kind == "long-history" {
			return c13LongCheck()
		}
		if rf.Kind == "big-dump" {
			return c13BigDumpCheck()
		}
		if rf.Kind == "realmem" {
			var rc c13RealCase
			if err := json.Unmarshal(rf.Case, &rc); err != nil {
				return err
			}
			return c13RealCheck(rc)
		}
		var c c13Case
		if err := json.Unmarshal(rf.Case, &c); err != nil {
			return err
		}
		return c13Check(c)
	})
}

func TestC13(t *testing.T) {
	rig.Main(t, "C13", "rapid op lists on a fresh bus.Bus with four recording memories: aligned Attach over ranges around three anchors (overlap, "+
		"abut, nest, re-attach), misaligned Attach, single reads/writes, EaDump over 1-80 addresses at any alignment into a sentinel-filled buffer with a canary; "+
		"model = owner per 16-byte block; a quarter of the writes are repeated (same byte, same address); the bus is printed between operations; the long history looks at its window 256 Attach calls apart.  Non-trivial = the history contains an Attach followed by a read, write or dump of an attached address; distinct = hash(ops).",
		func(r *rig.Run) {
			ev := r.Ev
			if rig.Shard() == 0 {
				n := 0
				for start := uint32(0x7EE0); start <= 0x8150; start++ {
					if !(start <= 0x7F10 || (start >= 0x7FD8 && start <= 0x8018) || start >= 0x80D0) {
						continue
					}
					for _, ln := range []int{1, 16, 17, 40} {
						rc := c13RealCase{start, ln}
						r.CheckSweep("realmem", rc, func() error { return c13RealCheck(rc) })
						ev.Case(true, rig.Hash64("real", start, ln), nil)
						n++
					}
				}
				ev.ClassN("dumps-over-memory.ROM/memory.RAM-objects", int64(n))
				r.CheckSweep("long-history", struct{}{}, c13LongCheck)
				ev.Case(true, rig.Hash64("long-history"), nil)
				ev.ClassN("history-of-70000-Attach-calls(probes)", 30)
				r.CheckSweep("big-dump", struct{}{}, c13BigDumpCheck)
				ev.Case(true, rig.Hash64("big-dump"), nil)
				ev.ClassN("dumps-of-64KiB-and-more", 4)
			}
			r.Rapid("rapid", rig.Pick(3000, 12000), func(t *rapid.T) {
				c := c13Gen(t)
				r.Check(t, "rapid", c, func() error { return c13Check(c) })
				// classify
				owner := c13Owner{}
				has := func(b uint32) bool { _, ok := owner.get(b); return ok }
				nontriv := false
				for _, op := range c.Ops {
					switch op.Kind {
					case "attach":
						if op.End+1 == op.Start {
							ev.Class("attach-of-an-empty-range")
							continue
						}
						for _, iv := range owner.ivs {
							if iv.lo <= op.End>>4 && iv.hi >= op.Start>>4 {
								ev.Class("re-attach-over-attached-block")
								break
							}
						}
						owner.add(op.Start>>4, op.End>>4, 0)
					case "read24":
						if has(op.Start >> 4) {
							nontriv = true
						}
						ev.Class("read24")
					case "read", "write":
						if has(op.Start >> 4) {
							nontriv = true
							ev.Class(op.Kind + "-attached")
						} else {
							ev.Class(op.Kind + "-unattached")
						}
					case "dump":
						if op.End+1 == op.Start {
							ev.Class("dump-of-an-empty-range")
						}
						att, hole := false, false
						for a := op.Start; a <= op.End; a++ {
							if has(a >> 4) {
								att = true
							} else {
								hole = true
							}
						}
						if att {
							nontriv = true
						}
						if op.Start&15 != 0 && att {
							ev.Class("dump-unaligned-start-attached")
						}
						if att && hole {
							ev.Class("dump-straddles-hole")
						}
						if op.Start>>4 != op.End>>4 && att {
							ev.Class("dump-multi-block")
						}
					case "copy":
						ev.Class("continued-on-a-copy-of-the-Bus-value")
					case "misattach":
						ev.Class("misaligned-attach")
					}
				}
				raw, _ := json.Marshal(c)
				ev.Case(nontriv, rig.Hash64(raw), func() interface{} { return c })
			})
		})
}
