package props

import (
	"encoding/json"
	"fmt"
	"strings"
	"sync"

	"verif/harness/rig"
	"verif/harness/wdc"
)

// progCase is a generated program: initial state, memory image (Mix(seed) + patches), step bound.
type progCase struct {
	Init    wdc.Arch    `json:"init"`
	MemSeed uint32      `json:"mem_seed"`
	Patches []rig.Patch `json:"patches"`
	Steps   int         `json:"steps"`
	Top     bool        `json:"top,omitempty"`
	// Fork: the program runs on CPUs created with InitFrom from the loaded ones
	Fork bool `json:"fork,omitempty"`
	// SwapAt > 0: before that step the caller assigns the CPU's exported Bus field (cpu65c816): another bus with the same
	// memory behind it; the bus that was replaced answers from a different memory from then on
	SwapAt int `json:"swap_at,omitempty"`
}

func decodeProg(data []byte) (progCase, error) {
	var rf rig.ReplayFile
	var c progCase
	if err := json.Unmarshal(data, &rf); err != nil {
		return c, err
	}
	err := json.Unmarshal(rf.Case, &c)
	return c, err
}

var (
	cpuOnce sync.Once
	cpuPri  *rig.Primary
	cpuAlt  *rig.Alt
)

func cpus() (*rig.Primary, *rig.Alt) {
	cpuOnce.Do(func() { cpuPri, cpuAlt = rig.NewPrimary(), rig.NewAlt() })
	return cpuPri, cpuAlt
}

// stepInfo describes one executed instruction for the evidence.
type stepInfo struct {
	Op     byte
	M8, X8 bool
	Cls    string
}

type lockstepStats struct {
	Steps      []stepInfo
	UnspecV    int
	UnspecANZC int
	Order      int
	EndedWhy   string
}

func insString(mem *rig.Mem, st wdc.Arch) string {
	pc := uint32(st.K)<<16 | uint32(st.PC)
	var b [4]byte
	for i := range b {
		b[i] = mem.Peek(uint32(st.K)<<16 | uint32(st.PC+uint16(i)))
	}
	d := wdc.Decode(b[:], st.P&wdc.FM != 0, st.P&wdc.FX != 0)
	return fmt.Sprintf("$%06X: %s %s %s [% x]", pc, d.Mn, wdc.ModeName[d.Md], wdc.Render(d, st.PC), b[:d.Len])
}

// runLockstep executes the program on the reference model and on every given interpreter and
// compares after every step.  With a synth the program is generated just in time (its patches
// are appended to c.Patches).
func runLockstep(c *progCase, synth *rig.Synth, impls []rig.CPU, stats *lockstepStats) error {
	ref := rig.NewMem(c.MemSeed)
	if synth != nil {
		synth.Mem = ref
	}
	for _, p := range c.Patches {
		ref.Poke(p.Addr, p.Val)
	}
	mems := make([]*rig.Mem, len(impls))
	alive := make([]bool, len(impls))
	for i, cpu := range impls {
		mems[i] = rig.NewMem(c.MemSeed)
		for _, p := range c.Patches {
			mems[i].Poke(p.Addr, p.Val)
		}
		cpu.SetMem(mems[i])
		if c.MemSeed&4 != 0 {
			// every other case starts from registers set through the exported fields only, on an object that has run
			// the earlier cases: whatever an interpreter remembers beside its registers accumulates over the whole run
			if c.MemSeed&8 != 0 {
				_ = cpu.Inspect() // (a look at the state the last case left behind, right before the registers are set)
			}
			cpu.SoftLoadRaw(rig.ArchToRaw(c.Init))
		} else {
			cpu.Load(c.Init)
		}
		alive[i] = true
	}
	if c.Fork {
		impls = append([]rig.CPU(nil), impls...)
		for i := range impls {
			impls[i] = impls[i].Fork()
		}
	}
	model := c.Init
	ref.DoLog = true
	for k := 0; k < c.Steps; k++ {
		if c.MemSeed&8 != 0 {
			// the calls a debugger makes between two steps, before the next instruction is even in place: packed flags and
			// disassembly of whatever lies at the program counter now
			for i, cpu := range impls {
				if alive[i] {
					if msg := cpu.Inspect(); msg != "" {
						return fmt.Errorf("before step %d: %s: %s", k, cpu.Name(), msg)
					}
				}
			}
		}
		if synth != nil {
			n0 := len(synth.Patches)
			synth.Instr(model)
			for _, p := range synth.Patches[n0:] {
				c.Patches = append(c.Patches, p)
				for _, m := range mems {
					m.Poke(p.Addr, p.Val)
				}
			}
		}
		if c.SwapAt > 0 && k == c.SwapAt {
			for _, cpu := range impls {
				cpu.SwapBus()
			}
		}
		pre := model
		what := insString(ref, pre)
		if stats != nil {
			cls := ""
			if synth != nil {
				cls = synth.LastCls
			}
			stats.Steps = append(stats.Steps, stepInfo{ref.Peek(uint32(pre.K)<<16 | uint32(pre.PC)), pre.P&wdc.FM != 0, pre.P&wdc.FX != 0, cls})
		}
		ref.Log = ref.Log[:0]
		u := wdc.Step(&model, ref)
		if synth != nil {
			synth.NoteAccess(ref.Log)
		}
		if u.Order {
			// the visible result depends on the bus-cycle order inside the instruction: not judged
			if stats != nil {
				stats.Order++
				stats.EndedWhy = "order-dependent"
			}
			// still: no crash allowed
			for i, cpu := range impls {
				if !alive[i] {
					continue
				}
				if _, _, p := cpu.Step(); p != nil {
					return fmt.Errorf("step %d %s: %s panicked: %v (state before: %+v)", k, what, cpu.Name(), p, pre)
				}
			}
			return nil
		}
		for i, cpu := range impls {
			if !alive[i] {
				continue
			}
			_, stopped, p := cpu.Step()
			if p != nil {
				return fmt.Errorf("step %d %s: %s panicked: %v (state before: %+v)", k, what, cpu.Name(), p, pre)
			}
			if f := mems[i].BusFault(); f != "" {
				return fmt.Errorf("step %d %s: %s %s (state before: %+v)", k, what, cpu.Name(), f, pre)
			}
			got := cpu.Arch()
			want := model
			if u.V {
				want.P = want.P&^wdc.FV | got.P&wdc.FV
			}
			if u.ANZC {
				want.A = got.A
				want.P = want.P&^(wdc.FN|wdc.FZ|wdc.FC) | got.P&(wdc.FN|wdc.FZ|wdc.FC)
			}
			if d := rig.DiffArch(got, want); len(d) > 0 {
				return fmt.Errorf("step %d %s: %s deviates from the WDC model in %s (state before: %+v; model after: %+v; %s after: %+v)", k, what, cpu.Name(), strings.Join(d, ","), pre, want, cpu.Name(), got)
			}
			if stopped != model.Stopped {
				return fmt.Errorf("step %d %s: %s Step() reported stopped=%v, model says %v", k, what, cpu.Name(), stopped, model.Stopped)
			}
			if dm := rig.DiffMem(mems[i], ref, 4); len(dm) > 0 {
				a := dm[0]
				return fmt.Errorf("step %d %s: %s memory differs from the WDC model at $%06X (%s has %02x, model %02x; %d+ bytes differ) (state before: %+v)", k, what, cpu.Name(), a, cpu.Name(), mems[i].Peek(a), ref.Peek(a), len(dm), pre)
			}
			if i == 0 && (u.V || u.ANZC) {
				// re-synchronise the model on the first interpreter's choice
				model.P, model.A = want.P, want.A
			} else if i > 0 && (u.V || u.ANZC) {
				if got.P != model.P || got.A != model.A {
					alive[i] = false // made a different (allowed) choice: cannot be followed further with one model
				}
			}
		}
		if stats != nil {
			if u.V {
				stats.UnspecV++
			}
			if u.ANZC {
				stats.UnspecANZC++
			}
		}
		if model.Stopped {
			if stats != nil {
				stats.EndedWhy = "stp"
			}
			return nil
		}
		if u.LeftNative {
			if stats != nil {
				stats.EndedWhy = "entered-emulation"
			}
			return nil
		}
	}
	return nil
}
