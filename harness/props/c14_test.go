package props

import (
	"bytes"
	"encoding/json"
	"fmt"
	"strconv"
	"strings"
	"testing"

	"github.com/alttpo/snes/emulator"
	"pgregory.net/rapid"

	"verif/harness/rig"
	"verif/harness/wdc"
)

// C14 — execution tracing is truthful and does not perturb execution.

type c14Case struct {
	Impl    string      `json:"impl"` // "system" (emulator.System.RunUntil with Logger) or "cpualt" (DisassembleCurrentPC before each step)
	Init    rig.Raw     `json:"init"`
	MemSeed uint32      `json:"mem_seed"`
	Patches []rig.Patch `json:"patches"`
	Steps   int         `json:"steps"`
}

type traceLine struct {
	bank    byte
	pc      uint16
	bytes   []byte
	mn      string
	operand string // normalised: blanks and '$' removed, "Sn" folded to "S"
	regs    map[string]string
	flags   string
}

func parseHexBytes(s string) ([]byte, error) {
	var out []byte
	for _, f := range strings.Fields(s) {
		v, err := strconv.ParseUint(f, 16, 8)
		if err != nil {
			return nil, fmt.Errorf("byte list %q: %v", s, err)
		}
		out = append(out, byte(v))
	}
	return out, nil
}

func normOperand(s string) string {
	s = strings.ReplaceAll(s, " ", "")
	s = strings.ReplaceAll(s, "$", "")
	s = strings.ReplaceAll(s, "Sn", "S")
	return s
}

func parseRegs(s string, tl *traceLine) {
	tl.regs = map[string]string{}
	for _, f := range strings.Fields(s) {
		if i := strings.IndexByte(f, '='); i > 0 {
			tl.regs[f[:i]] = strings.TrimRight(f[i+1:], ",")
		} else if len(f) == 8 {
			tl.flags = f
		}
	}
}

func parseAddr(s string, tl *traceLine) error {
	s = strings.TrimSpace(s)
	if i := strings.LastIndexAny(s, "\t "); i >= 0 {
		s = s[i+1:]
	}
	parts := strings.Split(s, ":")
	if len(parts) != 2 {
		return fmt.Errorf("address field %q", s)
	}
	b, err1 := strconv.ParseUint(parts[0], 16, 8)
	p, err2 := strconv.ParseUint(parts[1], 16, 16)
	if err1 != nil || err2 != nil {
		return fmt.Errorf("address field %q", s)
	}
	tl.bank, tl.pc = byte(b), uint16(p)
	return nil
}

// parsePrimary parses "<cycles>\tKK:PPPP|b0 b1 ..|mn operand|  A=.. X=.. Y=.. NVMXDIZC\n".
func parsePrimary(line string) (traceLine, error) {
	var tl traceLine
	if !strings.HasSuffix(line, "\n") {
		return tl, fmt.Errorf("line does not end with a newline: %q", line)
	}
	f := strings.Split(strings.TrimSuffix(line, "\n"), "|")
	if len(f) != 4 {
		return tl, fmt.Errorf("expected 4 '|'-separated fields, got %d in %q", len(f), line)
	}
	if err := parseAddr(f[0], &tl); err != nil {
		return tl, err
	}
	var err error
	if tl.bytes, err = parseHexBytes(f[1]); err != nil {
		return tl, err
	}
	ins := strings.TrimRight(f[2], " ")
	if len(ins) < 3 {
		return tl, fmt.Errorf("instruction field %q", f[2])
	}
	tl.mn = ins[:3]
	tl.operand = normOperand(ins[3:])
	parseRegs(f[3], &tl)
	return tl, nil
}

// parseAlt parses "ea=.., addr=.. | A=.. X=.. Y=.. S=.... nvmxdizc | KK:PPPP│b0 b1 ..│mn operand".
func parseAlt(line string) (traceLine, error) {
	var tl traceLine
	f := strings.Split(line, "│")
	if len(f) != 3 {
		return tl, fmt.Errorf("expected 3 '│'-separated fields, got %d in %q", len(f), line)
	}
	g := strings.Split(f[0], "|")
	if len(g) != 3 {
		return tl, fmt.Errorf("expected 3 '|'-separated fields in %q", f[0])
	}
	if err := parseAddr(g[2], &tl); err != nil {
		return tl, err
	}
	var err error
	if tl.bytes, err = parseHexBytes(f[1]); err != nil {
		return tl, err
	}
	ins := strings.TrimRight(f[2], " ")
	if len(ins) < 3 {
		return tl, fmt.Errorf("instruction field %q", f[2])
	}
	tl.mn = ins[:3]
	tl.operand = normOperand(ins[3:])
	parseRegs(g[1], &tl)
	tl.flags = strings.ToUpper(tl.flags)
	return tl, nil
}

// c14Judge compares one parsed line with the instruction about to execute.
func c14Judge(tl traceLine, st wdc.Arch, mem *rig.Mem, alt bool) error {
	if tl.bank != st.K || tl.pc != st.PC {
		return fmt.Errorf("line shows %02x:%04x but the instruction about to execute is at %02x:%04x", tl.bank, tl.pc, st.K, st.PC)
	}
	var b [4]byte
	for i := range b {
		b[i] = mem.Peek(uint32(st.K)<<16 | uint32(st.PC+uint16(i)))
	}
	m8, x8 := st.P&wdc.FM != 0, st.P&wdc.FX != 0
	d := wdc.Decode(b[:], m8, x8)
	okLen := len(tl.bytes) == d.Len || (d.Mn == "brk" && (len(tl.bytes) == 1 || len(tl.bytes) == 2))
	if !okLen {
		return fmt.Errorf("%s %s (m8=%v x8=%v) occupies %d bytes [% x] but the line lists %d bytes [% x]", d.Mn, wdc.ModeName[d.Md], m8, x8, d.Len, b[:d.Len], len(tl.bytes), tl.bytes)
	}
	if !bytes.Equal(tl.bytes, b[:len(tl.bytes)]) {
		return fmt.Errorf("line lists bytes [% x], memory holds [% x]", tl.bytes, b[:len(tl.bytes)])
	}
	if tl.mn != d.Mn {
		return fmt.Errorf("line shows mnemonic %q for opcode %02x (%s)", tl.mn, d.Op, d.Mn)
	}
	switch {
	case d.Mn == "brk":
		// signature byte is optional in listings
	case d.Md == wdc.MRel8:
		// "xx(dddd+)" / "xx(dddd-)": displacement byte and destination
		want := wdc.Render(d, st.PC)
		op := tl.operand
		i, j := strings.IndexByte(op, '('), strings.IndexByte(op, ')')
		if i < 0 || j < i+5 {
			return fmt.Errorf("relative branch operand %q has no destination", op)
		}
		if op[:i] != fmt.Sprintf("%02x", d.Operand) {
			return fmt.Errorf("relative branch shows displacement %q, the byte is %02x", op[:i], d.Operand)
		}
		if op[i+1:i+5] != want {
			return fmt.Errorf("relative branch at %04x with displacement %02x leads to %s but the line says %s", st.PC, d.Operand, want, op[i+1:i+5])
		}
	default:
		if want := wdc.Render(d, st.PC); tl.operand != want {
			return fmt.Errorf("%s %s: operand rendered as %q, want %q (bytes [% x])", d.Mn, wdc.ModeName[d.Md], tl.operand, want, b[:d.Len])
		}
	}
	// registers in the width the flags select, with the values the instruction will see
	wantA := fmt.Sprintf("%04x", st.A)
	if m8 {
		wantA = fmt.Sprintf("--%02x", st.A&0xff)
	}
	wantX, wantY := fmt.Sprintf("%04x", st.X), fmt.Sprintf("%04x", st.Y)
	if x8 {
		wantX, wantY = fmt.Sprintf("--%02x", st.X&0xff), fmt.Sprintf("--%02x", st.Y&0xff)
	}
	if tl.regs["A"] != wantA || tl.regs["X"] != wantX || tl.regs["Y"] != wantY {
		return fmt.Errorf("line shows A=%s X=%s Y=%s, the instruction will see A=%s X=%s Y=%s", tl.regs["A"], tl.regs["X"], tl.regs["Y"], wantA, wantX, wantY)
	}
	if alt {
		if want := fmt.Sprintf("%04x", st.S); tl.regs["S"] != want {
			return fmt.Errorf("line shows S=%s, stack pointer is %s", tl.regs["S"], want)
		}
	}
	wantF := ""
	for i, c := range "NVMXDIZC" {
		if st.P>>(7-uint(i))&1 != 0 {
			wantF += string(c)
		} else {
			wantF += "-"
		}
	}
	if tl.flags != wantF {
		return fmt.Errorf("line shows flags %q, P=%02x is %q", tl.flags, st.P, wantF)
	}
	return nil
}

func c14Check(c c14Case) error {
	load := func(cpu rig.CPU) *rig.Mem {
		m := rig.NewMem(c.MemSeed)
		for _, p := range c.Patches {
			m.Poke(p.Addr, p.Val)
		}
		cpu.SetMem(m)
		cpu.LoadRaw(c.Init)
		return m
	}
	if c.Impl == "cpualt" {
		_, alt := cpus()
		// run A: no tracing
		ma := load(alt)
		for k := 0; k < c.Steps; k++ {
			if _, _, p := alt.Step(); p != nil {
				return fmt.Errorf("untraced step %d panicked: %v", k, p)
			}
		}
		ra := alt.Raw()
		// run B: trace before every step
		mb := load(alt)
		for k := 0; k < c.Steps; k++ {
			st := alt.Arch()
			var buf bytes.Buffer
			if p := rig.Safe(func() error { alt.C.DisassembleCurrentPC(&buf); return nil }); p != nil {
				return fmt.Errorf("step %d: DisassembleCurrentPC failed: %v", k, p)
			}
			tl, err := parseAlt(buf.String())
			if err != nil {
				return fmt.Errorf("step %d: %v", k, err)
			}
			if err := c14Judge(tl, st, mb, true); err != nil {
				return fmt.Errorf("cpualt step %d: %v | line: %q", k, err, buf.String())
			}
			if _, _, p := alt.Step(); p != nil {
				return fmt.Errorf("traced step %d panicked: %v", k, p)
			}
		}
		if rb := alt.Raw(); rb != ra {
			return fmt.Errorf("cpualt: tracing changed the final state: traced %+v, untraced %+v", rb, ra)
		}
		if dm := rig.DiffMem(ma, mb, 4); len(dm) > 0 {
			return fmt.Errorf("cpualt: tracing changed memory at $%06X", dm[0])
		}
		return nil
	}
	// emulator.System: RunUntil with and without a Logger; expected lines from a twin stepping the same program
	twin, _ := cpus()
	sys, scpu := c12System()
	const never = 0xEE1234
	budget := uint64(c.Steps)
	// budget 0: nothing runs, with or without a Logger
	{
		load(scpu)
		r0 := scpu.Raw()
		for _, traced := range []bool{false, true} {
			sys.Logger = nil
			if traced {
				sys.Logger = &countWriter{}
			}
			p := rig.Safe(func() error { sys.RunUntil(never, 0); return nil })
			sys.Logger = nil
			if p != nil {
				return fmt.Errorf("RunUntil with budget 0 (Logger attached: %v) failed: %v", traced, p)
			}
			if r1 := scpu.Raw(); r1 != r0 {
				return fmt.Errorf("RunUntil with a budget of 0 cycles and Logger attached=%v changed the CPU: %+v -> %+v (without a Logger nothing runs)", traced, r0, r1)
			}
		}
	}
	// a program-counter hook at the first instruction's address counts its calls: tracing must not change how often it runs
	hookCalls := 0
	startPC := uint32(c.Init.RK)<<16 | uint32(c.Init.PC)
	setHook := func() {
		hookCalls = 0
		scpu.C.OnPC = map[uint32]func(){startPC: func() { hookCalls++ }}
	}
	defer func() { scpu.C.OnPC = nil }()
	// run A
	ma := load(scpu)
	scpu.C.OnPC, scpu.C.OnWDM = nil, nil
	setHook()
	sys.Logger = nil
	if p := rig.Safe(func() error { sys.RunUntil(never, budget); return nil }); p != nil {
		return fmt.Errorf("untraced RunUntil failed: %v", p)
	}
	ra := scpu.Raw()
	hookA := hookCalls
	// (every other case) before run B: a traced run whose sink panics on its second line, recovered by the caller; the
	// System is used again right after it and run B's lines must be those of run B
	if c.MemSeed&2 != 0 {
		load(scpu)
		pw := &countWriter{}
		pw.onWrite = func() {
			if pw.n >= 1 {
				panic("trace sink: disk full")
			}
		}
		sys.Logger = pw
		_ = rig.Safe(func() error { sys.RunUntil(never, budget); return nil })
		sys.Logger = nil
	}
	// run B
	mb := load(scpu)
	lw := &countWriter{}
	sys.Logger = lw
	setHook()
	p := rig.Safe(func() error { sys.RunUntil(never, budget); return nil })
	sys.Logger = nil
	if p != nil {
		return fmt.Errorf("traced RunUntil failed: %v", p)
	}
	if hookCalls != hookA {
		return fmt.Errorf("the OnPC hook at $%06X ran %d times in the traced run and %d times in the untraced run", startPC, hookCalls, hookA)
	}
	scpu.C.OnPC = nil
	if rb := scpu.Raw(); rb != ra {
		return fmt.Errorf("running with a Logger changed the final state: traced %+v, untraced %+v", rb, ra)
	}
	if dm := rig.DiffMem(ma, mb, 4); len(dm) > 0 {
		return fmt.Errorf("running with a Logger changed memory at $%06X", dm[0])
	}
	// the bytes shown in a line are read through the bus like any others: each by its own address (the test memory sits
	// behind sixteen handlers that alternate per 16-byte segment; on a bus with several devices a byte fetched through its
	// neighbour's handler is a byte of the wrong device)
	if fa, fb := ma.BusFault(), mb.BusFault(); fa == "" && fb != "" {
		return fmt.Errorf("the traced run %s (the untraced run did not)", fb)
	}
	// run C: a sink that starts failing after a few lines (full buffer, closed pipe) must not change the run either
	mc := load(scpu)
	fw := &failingWriter{okLines: 2}
	sys.Logger = fw
	p = rig.Safe(func() error { sys.RunUntil(never, budget); return nil })
	sys.Logger = nil
	if p != nil {
		return fmt.Errorf("RunUntil with a failing Logger failed: %v", p)
	}
	if rc := scpu.Raw(); rc != ra {
		return fmt.Errorf("running with a Logger whose Write fails after %d lines changed the final state: traced %+v, untraced %+v", fw.okLines, rc, ra)
	}
	if dm := rig.DiffMem(ma, mc, 4); len(dm) > 0 {
		return fmt.Errorf("running with a failing Logger changed memory at $%06X", dm[0])
	}
	// run D: a Logger that also offers Reserve(int) and Commit() (the optional interfaces RunUntil looks for)
	md := load(scpu)
	rw := &reservingWriter{}
	sys.Logger = rw
	p = rig.Safe(func() error { sys.RunUntil(never, budget); return nil })
	sys.Logger = nil
	if p != nil {
		return fmt.Errorf("RunUntil with a reserving Logger failed: %v", p)
	}
	if rd := scpu.Raw(); rd != ra {
		return fmt.Errorf("running with a Logger that implements Reserve/Commit changed the final state (budget %d cycles): traced %+v, untraced %+v", budget, rd, ra)
	}
	if dm := rig.DiffMem(ma, md, 4); len(dm) > 0 {
		return fmt.Errorf("running with a reserving Logger changed memory at $%06X", dm[0])
	}
	if rw.lines != lw.n {
		return fmt.Errorf("a Logger with Reserve/Commit received %d lines, a plain one %d", rw.lines, lw.n)
	}
	// expected lines
	mt := load(twin)
	var cyc uint64
	// the disassembler appends to the slice it is given: lines accumulated in one slice (with a caller's prefix, little
	// spare capacity) must equal the lines produced one by one
	acc := append(make([]byte, 0, 40), "trace:"...)
	wantAcc := []byte("trace:")
	for k := 0; cyc < budget; k++ {
		if k < 40 {
			var one []byte
			if p := rig.Safe(func() error {
				one = twin.C.DisassembleCurrentPC(nil)
				acc = twin.C.DisassembleCurrentPC(acc)
				return nil
			}); p != nil {
				return fmt.Errorf("instruction %d: DisassembleCurrentPC failed: %v", k, p)
			}
			wantAcc = append(wantAcc, one...)
			if !bytes.Equal(acc, wantAcc) {
				return fmt.Errorf("instruction %d: appending the trace line to a slice that already holds %d bytes gives %q, want the earlier content followed by the line %q", k, len(wantAcc)-len(one), acc, one)
			}
		}
		st := twin.Arch()
		if uint32(st.K)<<16|uint32(st.PC) == never {
			break
		}
		if k >= len(lw.lines) {
			if k >= 300 {
				break
			}
			return fmt.Errorf("the logger received %d lines but instruction %d executed", len(lw.lines), k)
		}
		tl, err := parsePrimary(string(lw.lines[k]))
		if err != nil {
			return fmt.Errorf("line %d: %v", k, err)
		}
		if err := c14Judge(tl, st, mt, false); err != nil {
			return fmt.Errorf("line %d: %v | line: %q", k, err, string(lw.lines[k]))
		}
		n, _, p := twin.Step()
		if p != nil || n < 1 {
			return fmt.Errorf("twin step %d failed (%v, %d cycles)", k, p, n)
		}
		cyc += uint64(n)
	}
	return nil
}

type reservingWriter struct{ lines, reserved, commits int }

func (w *reservingWriter) Write(p []byte) (int, error) {
	w.lines += bytes.Count(p, []byte{'\n'})
	return len(p), nil
}
func (w *reservingWriter) Reserve(n int) { w.reserved += n }
func (w *reservingWriter) Commit()       { w.commits++ }

type failingWriter struct{ okLines, n int }

func (w *failingWriter) Write(p []byte) (int, error) {
	w.n++
	if w.n > w.okLines {
		return 0, fmt.Errorf("sink full")
	}
	return len(p), nil
}

// c14RealMap runs a small loop whose last instruction ends exactly at $70:7FFF (the byte after it,
// $70:8000, is not mapped in the emulated console) on a System with its real memory map, with and
// without a Logger: tracing must not make the run fail or end differently.
type c14MapCase struct {
	Body   []byte `json:"body"` // instruction bytes (M=X=1), followed by BRA back to the start
	Cycles int    `json:"cycles"`
	Bank   uint32 `json:"bank"` // $70, $71, $F0 or $F1
}

// c14HookCase: a short program whose WDM hook raises an interrupt from inside the step (the way a cartridge device or a
// test driver does); the run with a Logger must end exactly like the run without one.
type c14HookCase struct {
	E      bool `json:"e"`
	P      byte `json:"p"`
	NMI    bool `json:"nmi"`    // the hook raises an NMI instead of an IRQ
	Budget int  `json:"budget"` // cycles
	Nops   int  `json:"nops"`   // NOPs between CLI and the WDM
	// Target: 0 = an address the run never reaches, 1 = the instruction right after the first WDM (the run ends there
	// with the interrupt still pending), 2 = the handler's first instruction
	Target int `json:"target"`
}

func c14HookCheck(c c14HookCase) error {
	sys, scpu := c12System()
	never := uint32(0x123456)
	switch c.Target {
	case 1:
		never = 0x008000 + 1 + uint32(c.Nops) + 2
	case 2:
		never = 0x009000
	}
	run := func(traced bool) (rig.Raw, *rig.Mem, int, error) {
		m := rig.NewMem(0xC14)
		prog := []byte{0x58}
		for i := 0; i < c.Nops; i++ {
			prog = append(prog, 0xEA)
		}
		prog = append(prog, 0x42, 0x01, 0xEA, 0xEA, 0x42, 0x03, 0xEA, 0xEA, 0xEA, 0xEA, 0x80, 0xFC)
		for i, b := range prog {
			m.Poke(0x008000+uint32(i), b)
		}
		for i, b := range []byte{0xE6, 0x10, 0xEE, 0x34, 0x12, 0x40} { // handler: INC $10; INC $1234; RTI
			m.Poke(0x009000+uint32(i), b)
		}
		for _, vec := range []uint32{0xFFEE, 0xFFEA, 0xFFFE, 0xFFFA} {
			m.Poke(vec, 0x00)
			m.Poke(vec+1, 0x90)
		}
		scpu.SetMem(m)
		scpu.C.OnPC, scpu.C.OnWDM = nil, nil
		scpu.LoadRaw(rig.ArchToRaw(wdc.Arch{A: 0x0102, X: 3, Y: 4, S: 0x01F0, PC: 0x8000, K: 0, DBR: 0, P: c.P | 0x04, E: c.E}))
		hooks := 0
		scpu.C.OnWDM = func(b byte) {
			hooks++
			if c.NMI {
				scpu.SetInterrupt(interruptNMI)
			} else {
				scpu.TriggerIRQ()
			}
		}
		defer func() { scpu.C.OnWDM = nil; sys.Logger = nil }()
		sys.Logger = nil
		if traced {
			sys.Logger = &countWriter{}
		}
		if p := rig.Safe(func() error { sys.RunUntil(never, uint64(c.Budget)); return nil }); p != nil {
			return rig.Raw{}, nil, 0, p
		}
		return scpu.Raw(), m, hooks, nil
	}
	ra, ma, ha, err := run(false)
	if err != nil {
		return fmt.Errorf("untraced run with an interrupt-raising WDM hook failed: %v", err)
	}
	rb, mb, hb, err := run(true)
	if err != nil {
		return fmt.Errorf("traced run with an interrupt-raising WDM hook failed: %v", err)
	}
	if ra != rb || ha != hb {
		return fmt.Errorf("a WDM hook raises an interrupt during the run: with a Logger the run ends in %+v (hook ran %d times), without one in %+v (%d times)", rb, hb, ra, ha)
	}
	if dm := rig.DiffMem(ma, mb, 4); len(dm) > 0 {
		return fmt.Errorf("a WDM hook raises an interrupt during the run: running with a Logger changed memory at $%06X", dm[0])
	}
	return nil
}

func c14RealMapCheck(c c14MapCase) error {
	code := append(append([]byte(nil), c.Body...), 0x80, byte(-(len(c.Body) + 2)))
	startOff := 0x8000 - len(code)
	run := func(logger bool) (rig.Raw, []byte, error) {
		sys := &emulator.System{}
		if err := sys.CreateEmulator(); err != nil {
			return rig.Raw{}, nil, err
		}
		half := int(c.Bank&1) * 0x8000
		copy(sys.SRAM[half+startOff:], code)
		cpu := rig.WrapPrimary(&sys.CPU, &sys.Bus)
		cpu.LoadRaw(rig.ArchToRaw(wdc.Arch{S: 0x01F0, PC: uint16(startOff), K: byte(c.Bank), DBR: 0x7E, P: 0x30}))
		lw := &countWriter{}
		if logger {
			sys.Logger = lw
		}
		var pan interface{}
		func() {
			defer func() { pan = recover() }()
			sys.RunUntil(0xEE1234, uint64(c.Cycles))
		}()
		if pan != nil {
			return cpu.Raw(), nil, fmt.Errorf("%v", pan)
		}
		return cpu.Raw(), append([]byte(nil), sys.WRAM[:0x200]...), nil
	}
	r0, m0, e0 := run(false)
	if e0 != nil {
		return nil // the program itself fails without tracing: not a tracing matter
	}
	r1, m1, e1 := run(true)
	if e1 != nil {
		return fmt.Errorf("program at $%02X:%04X-$7FFF runs fine untraced but fails with a Logger attached: %v", c.Bank, startOff, e1)
	}
	if r0 != r1 || !bytes.Equal(m0, m1) {
		return fmt.Errorf("program at the end of the SRAM window: traced final state %+v differs from untraced %+v", r1, r0)
	}
	return nil
}

func init() {
	rig.RegisterReplay("C14", func(data []byte) error {
		var rf rig.ReplayFile
		if err := json.Unmarshal(data, &rf); err != nil {
			return err
		}
		if rf.Kind == "hook-interrupt" {
			var hc c14HookCase
			if err := json.Unmarshal(rf.Case, &hc); err != nil {
				return err
			}
			return c14HookCheck(hc)
		}
		if rf.Kind == "realmap" {
			var mc c14MapCase
			if err := json.Unmarshal(rf.Case, &mc); err != nil {
				return err
			}
			return c14RealMapCheck(mc)
		}
		var c c14Case
		if err := json.Unmarshal(rf.Case, &c); err != nil {
			return err
		}
		return c14Check(c)
	})
}

func TestC14(t *testing.T) {
	rig.Main(t, "C14", "rapid programs (JIT synthesis, all opcodes, all width settings, forward and backward rel8, BRL/PER) run twice: on emulator.System with and without a recording "+
		"Logger, and on cpualt with and without DisassembleCurrentPC before each step; final registers, flags, cycle totals and memory must be equal, and every trace line is parsed and "+
		"compared with an independent decoder (address, exact byte list for the current widths, mnemonic, canonical operand rendering, branch destination, register values in the selected "+
		"width, flag letters); half of the traced runs are preceded by a traced run whose sink panics on its second line; the bus-fault record of the traced run is compared with the untraced one; short programs whose WDM hook raises an IRQ or NMI in the middle of the run are run traced and untraced to three kinds of end.  Non-trivial = at least one line judged; distinct = hash(case).",
		func(r *rig.Run) {
			ev := r.Ev
			twin, _ := cpus()
			var cells [1024]int64
			var backward, forward int64
			r.Rapid("trace", rig.Pick(24000, 100000), func(t *rapid.T) {
				d := rig.RapidDrawer{T: t}
				syn := rig.NewSynth(d, nil)
				op0 := byte(d.U32("op0-pre"))
				if d.Intn("branchy", 6) == 0 {
					op0 = []byte{0x80, 0x10, 0x30, 0x50, 0x70, 0x90, 0xB0, 0xD0, 0xF0, 0x82, 0x62}[d.Intn("br", 11)]
				}
				syn.ForceFirst(op0)
				a := rig.GenArch(d, op0, false)
				c := c14Case{Impl: []string{"system", "cpualt"}[d.Intn("impl", 2)], Init: rig.ArchToRaw(a), MemSeed: d.U32("memseed")}
				// place the program by exploring it on the twin
				m := rig.NewMem(c.MemSeed)
				twin.SetMem(m)
				twin.LoadRaw(c.Init)
				m.DoLog = true
				syn.Mem = m
				n := 1 + d.Intn("steps", rig.Pick(24, 64))
				if d.Intn("long", 4) == 0 {
					n += 60 // budgets beyond 256 cycles
				}
				var cyc int
				for k := 0; k < n; k++ {
					st := twin.Arch()
					syn.Instr(st)
					op := m.Peek(uint32(st.K)<<16 | uint32(st.PC))
					i := int(op) << 2
					if st.P&wdc.FM != 0 {
						i |= 2
					}
					if st.P&wdc.FX != 0 {
						i |= 1
					}
					cells[i]++
					if wdc.Optab[op].Md == wdc.MRel8 {
						if m.Peek(uint32(st.K)<<16|uint32(st.PC+1)) >= 0x80 {
							backward++
						} else {
							forward++
						}
					}
					m.Log = m.Log[:0]
					cy, _, p := twin.Step()
					if p != nil {
						t.Skip("program crashes")
					}
					syn.NoteAccess(m.Log)
					cyc += cy
				}
				c.Patches = syn.Patches
				c.Steps = n
				if c.Impl == "system" {
					c.Steps = cyc // RunUntil budget in cycles
				}
				r.Check(t, "trace", c, func() error { return c14Check(c) })
				raw, _ := json.Marshal(c)
				ev.Case(true, rig.Hash64(raw), func() interface{} { return c })
				ev.Class("impl/" + c.Impl)
			})
			if rig.Shard() == 0 {
				// real memory map: every body of 0..3 one- and two-byte instructions before the closing BRA
				one := []byte{0xE8, 0xC8, 0xEA, 0x1A, 0xCA}
				two := [][]byte{{0xA9, 0x12}, {0xA2, 0x34}, {0x09, 0x80}}
				var bodies [][]byte
				bodies = append(bodies, nil)
				for _, a := range one {
					bodies = append(bodies, []byte{a})
					for _, b := range two {
						bodies = append(bodies, append([]byte{a}, b...), append(append([]byte(nil), b...), a), append(append([]byte(nil), b...), b...))
					}
				}
				n := 0
				for _, bank := range []uint32{0x70, 0x71, 0xF0, 0xF1} {
					for _, body := range bodies {
						mc := c14MapCase{Body: body, Cycles: 40, Bank: bank}
						r.CheckSweep("realmap", mc, func() error { return c14RealMapCheck(mc) })
						raw, _ := json.Marshal(mc)
						ev.Case(true, rig.Hash64(raw), nil)
						n++
					}
				}
				ev.ClassN("real-map/program-ends-at-the-last-mapped-byte", int64(n))
				// interrupts raised by a WDM hook in the middle of a run, traced against untraced
				nh := 0
				for _, mode := range []struct {
					e bool
					p byte
				}{{false, 0x00}, {false, 0x30}, {true, 0x30}} {
					for _, nmi := range []bool{false, true} {
						for _, budget := range []int{3, 5, 8, 13, 21, 40, 90} {
							for _, nops := range []int{0, 1, 3} {
								for target := 0; target < 3; target++ {
									hc := c14HookCase{E: mode.e, P: mode.p, NMI: nmi, Budget: budget, Nops: nops, Target: target}
									r.CheckSweep("hook-interrupt", hc, func() error { return c14HookCheck(hc) })
									raw, _ := json.Marshal(hc)
									ev.Case(true, rig.Hash64(raw), nil)
									nh++
								}
							}
						}
					}
				}
				ev.ClassN("interrupt-raised-by-a-WDM-hook-during-the-run", int64(nh))
			}
			ev.Extra["opcode_x_M_x_X_cells"] = cells[:]
			ev.Extra["const_cells_layout"] = "index = opcode<<2 | m8<<1 | x8; value = traced instructions"
			ev.Extra["rel8_backward_lines"] = backward
			ev.Extra["rel8_forward_lines"] = forward
			if backward+forward > 200 && (backward == 0 || forward == 0) {
				r.Infra("generator produced %d forward and %d backward relative branches", forward, backward)
			}
			ev.Assumption("cosmetic differences (blanks, '$', 'Sn' for 'S', the order of '$' and '(') are normalised away; BRK may be listed with or without its signature byte")
		})
}
