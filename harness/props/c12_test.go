package props

import (
	"encoding/json"
	"fmt"
	"sync"
	"testing"
	"time"

	"github.com/alttpo/snes/emulator"
	"pgregory.net/rapid"

	"verif/harness/rig"
	"verif/harness/wdc"
)

// C12 — Step accounts cycles faithfully and RunUntil always stops within its budget.

// ---- part A: complete enumeration of cycle cells

type c12Cell struct {
	Impl    string `json:"impl"`
	Op      byte   `json:"op"`
	P       byte   `json:"p"`
	E       bool   `json:"e"`
	D       uint16 `json:"d"`
	X, Y    uint16
	PC      uint16 `json:"pc"`
	Operand uint32 `json:"operand"` // three operand bytes, little-endian
	// Int: 1 = TriggerIRQ() before the step, 2 = NMI pending; the interrupt vectors point to $00:2000 where the same
	// opcode sits, so the step that enters the handler executes it there
	Int byte `json:"int,omitempty"`
	// Fork: the step is made by a CPU initialised from the loaded one with InitFrom (an object that has been the
	// destination of InitFrom before); the loaded CPU must not notice
	Fork bool `json:"fork,omitempty"`
}

func c12CellCheck(c c12Cell) error {
	pri, alt := cpus()
	var cpu rig.CPU = pri
	if c.Impl == "cpualt" {
		cpu = alt
	}
	mem := rig.NewMem(0xC12)
	cpu.SetMem(mem)
	a := wdc.Arch{A: 0x1234, X: c.X, Y: c.Y, S: 0x01F0, D: c.D, PC: c.PC, DBR: 0x7E, K: 0x01, P: c.P, E: c.E}
	r := rig.ArchToRaw(a)
	r.AllCycles = 1000
	cpu.LoadRaw(r)
	base := uint32(a.K) << 16
	mem.Poke(base|uint32(c.PC), c.Op)
	for i := uint16(0); i < 3; i++ {
		mem.Poke(base|uint32(c.PC+1+i), byte(c.Operand>>(8*i)))
	}
	if c.Int != 0 {
		for _, vec := range []uint32{0xFFEE, 0xFFEA, 0xFFFE, 0xFFFA} {
			mem.Poke(vec, 0x00)
			mem.Poke(vec+1, 0x20)
		}
		// (the handler is placed in bank 0 and in the current program bank: this implementation's NMI entry keeps K)
		for _, hb := range []uint32{0, base} {
			mem.Poke(hb|0x2000, c.Op)
			for i := uint32(0); i < 3; i++ {
				mem.Poke(hb|(0x2001+i), byte(c.Operand>>(8*i)))
			}
		}
		if c.Int == 1 {
			cpu.TriggerIRQ()
		} else {
			cpu.SetInterrupt(interruptNMI)
		}
	}
	var parent rig.CPU
	var parentRaw rig.Raw
	if c.Fork {
		parent, parentRaw = cpu, cpu.Raw()
		cpu = cpu.Fork()
	}
	n, stopped, p := cpu.Step()
	if p != nil {
		return fmt.Errorf("%s opcode %02x (interrupt request %d): Step panicked: %v", c.Impl, c.Op, c.Int, p)
	}
	after := cpu.Raw()
	if parent != nil && parent.Raw() != parentRaw {
		return fmt.Errorf("%s opcode %02x: a Step of the CPU made with InitFrom changed the CPU it was initialised from: %+v -> %+v", c.Impl, c.Op, parentRaw, parent.Raw())
	}
	if n < 1 {
		return fmt.Errorf("%s opcode %02x (%s) with P=%02x E=%v D=%04x X=%04x Y=%04x: Step reported %d cycles (must be >= 1)", c.Impl, c.Op, wdc.Optab[c.Op].Mn, c.P, c.E, c.D, c.X, c.Y, n)
	}
	if n != int(after.Cycles) {
		return fmt.Errorf("%s opcode %02x: Step returned %d cycles but CPU.Cycles = %d", c.Impl, c.Op, n, after.Cycles)
	}
	if after.AllCycles != 1000+uint64(n) {
		return fmt.Errorf("%s opcode %02x (P=%02x E=%v, interrupt request %d): AllCycles went from 1000 to %d, reported cycles %d", c.Impl, c.Op, c.P, c.E, c.Int, after.AllCycles, n)
	}
	if stopped != (c.Op == 0xDB) || after.Stopped != (c.Op == 0xDB) {
		return fmt.Errorf("%s opcode %02x: stop condition reported %v (Stopped field %v), want %v", c.Impl, c.Op, stopped, after.Stopped, c.Op == 0xDB)
	}
	return nil
}

// ---- parts B-D: RunUntil, callbacks, STP/Reset on emulator.System

type c12RunCase struct {
	Init    rig.Raw     `json:"init"`
	MemSeed uint32      `json:"mem_seed"`
	Patches []rig.Patch `json:"patches"`
	Target  uint32      `json:"target"`
	Max     uint64      `json:"max"`
	OnPC    []uint32    `json:"on_pc"` // addresses with a registered OnPC callback
	Logger  bool        `json:"logger"`
	Reset   bool        `json:"reset"` // after the run: Reset() and one more step
	// Warm: before the judged run, RunUntil(target, 1) executes one instruction with as many callbacks registered
	// (at the judged addresses moved to the neighbouring bank) as the judged run will have; the callback map object
	// is then changed in place to the judged addresses
	Warm bool `json:"warm,omitempty"`
	// PanicOnce (no Logger, no warm-up): the callback of OnPC[0] panics the first time it runs; the caller
	// recovers the panic that comes out of RunUntil and calls RunUntil again with the same arguments
	PanicOnce bool `json:"panic_once,omitempty"`
}

const c12HookFailure = "c12: the hook failed"

var (
	sysOnce sync.Once
	sysObj  *emulator.System
	sysCPU  *rig.Primary
)

func c12System() (*emulator.System, *rig.Primary) {
	sysOnce.Do(func() {
		sysObj = &emulator.System{}
		sysCPU = rig.NewPrimaryOn(&sysObj.CPU, &sysObj.Bus)
	})
	return sysObj, sysCPU
}

// countWriter is a trace sink that counts complete lines however the text is chunked into Write calls.
type countWriter struct {
	n       int      // complete lines
	calls   int      // Write calls
	lines   [][]byte // the first 300 lines (with their newline)
	pending []byte
	onWrite func() // called when a new line begins
}

func (w *countWriter) Write(p []byte) (int, error) {
	w.calls++
	for _, b := range p {
		if len(w.pending) == 0 && w.onWrite != nil {
			w.onWrite()
		}
		w.pending = append(w.pending, b)
		if b == '\n' {
			w.n++
			if len(w.lines) < 300 {
				w.lines = append(w.lines, w.pending)
			}
			w.pending = nil
		}
	}
	return len(p), nil
}

// growWriter is a trace sink that also offers Reserve/Commit the way a bytes.Buffer-backed logger does: Reserve refuses
// negative sizes (bytes.Buffer.Grow panics on them).
type growWriter struct {
	countWriter
	reserved int
}

func (w *growWriter) Reserve(n int) {
	if n < 0 {
		panic(fmt.Sprintf("Reserve(%d): negative size", n))
	}
	w.reserved += n
}
func (w *growWriter) Commit() {}

// c12OnHang is set by TestC12: a RunUntil that does not come back ends the check at once with a violation.
var c12OnHang func(c c12RunCase, err error)

func c12RunCheck(c c12RunCase) error {
	twin, _ := cpus()
	sys, scpu := c12System()
	load := func(cpu *rig.Primary) *rig.Mem {
		m := rig.NewMem(c.MemSeed)
		for _, p := range c.Patches {
			m.Poke(p.Addr, p.Val)
		}
		cpu.SetMem(m)
		cpu.C.OnPC, cpu.C.OnWDM = nil, nil
		cpu.LoadRaw(c.Init)
		return m
	}
	// specification loop on the twin
	mt := load(twin)
	pcOf := func(r rig.Raw) uint32 { return uint32(r.RK)<<16 | uint32(r.PC) }
	wantCalls := map[uint32]int{}
	isOnPC := map[uint32]bool{}
	for _, a := range c.OnPC {
		isOnPC[a] = true
	}
	var wantWDM []byte // operand bytes of the WDM instructions the specification loop executes (read from memory, not from the CPU)
	var cycles uint64
	executed := 0
	specFailed := false
	wantWarm := map[uint32]int{}
	if c.Warm && pcOf(twin.Raw()) != c.Target {
		at := pcOf(twin.Raw())
		for _, a := range c.OnPC {
			if a^0x010000 == at {
				wantWarm[at]++
				break
			}
		}
		if n, _, p := twin.Step(); p != nil || n < 1 {
			return fmt.Errorf("twin warm-up step at $%06X: %d cycles, %v", at, n, p)
		}
	}
	for cycles < c.Max && pcOf(twin.Raw()) != c.Target {
		at := pcOf(twin.Raw())
		if isOnPC[at] {
			wantCalls[at]++
			if c.PanicOnce && at == c.OnPC[0] && !specFailed {
				// the hook panics out of Step before anything was fetched; the second RunUntil call starts with a fresh budget
				specFailed = true
				cycles = 0
				continue
			}
		}
		if mt.Peek(at) == 0x42 {
			wantWDM = append(wantWDM, mt.Peek(at&0xff0000|uint32(uint16(at)+1)))
		}
		n, _, p := twin.Step()
		if p != nil {
			return fmt.Errorf("twin step panicked: %v", p)
		}
		if n < 1 {
			return fmt.Errorf("Step at $%06X reported %d cycles: RunUntil could not terminate", at, n)
		}
		cycles += uint64(n)
		executed++
		if executed > 100000 {
			return fmt.Errorf("specification loop did not end after 100000 instructions (budget %d)", c.Max)
		}
	}
	wantLogs := 0
	if c.Logger && c.Max > 0 {
		wantLogs = executed
		if pcOf(twin.Raw()) == c.Target && cycles < c.Max {
			wantLogs++
		}
	}
	// the real thing
	ms := load(scpu)
	gotCalls := map[uint32]int{}
	hookFailed := false
	var cbErr, cbOrderErr error
	sys.CPU.OnPC = map[uint32]func(){}
	if c.Warm {
		gotWarm := map[uint32]int{}
		for _, a := range c.OnPC {
			w := a ^ 0x010000
			sys.CPU.OnPC[w] = func() { gotWarm[w]++ }
		}
		sys.Logger = nil
		warmDone := make(chan error, 1)
		go func() { warmDone <- rig.Safe(func() error { sys.RunUntil(c.Target, 1); return nil }) }()
		select {
		case p := <-warmDone:
			if p != nil {
				return fmt.Errorf("warm-up RunUntil($%06X, 1) panicked: %v", c.Target, p)
			}
		case <-time.After(30 * time.Second):
			err := fmt.Errorf("RunUntil($%06X, 1) did not return within 30 s (a budget of one cycle allows one instruction)", c.Target)
			if c12OnHang != nil {
				c12OnHang(c, err)
			}
			return err
		}
		for w, n := range wantWarm {
			if gotWarm[w] != n {
				return fmt.Errorf("warm-up: OnPC callback of $%06X ran %d times, %d instructions were fetched there", w, gotWarm[w], n)
			}
		}
		// the same map object now gets the judged addresses
		for k := range sys.CPU.OnPC {
			delete(sys.CPU.OnPC, k)
		}
		ms.Log = ms.Log[:0]
	}
	ms.DoLog = true
	for _, a := range c.OnPC {
		a := a
		sys.CPU.OnPC[a] = func() {
			gotCalls[a]++
			if pcOf(scpu.Raw()) != a && cbErr == nil {
				cbErr = fmt.Errorf("OnPC callback of $%06X ran while PC = $%06X", a, pcOf(scpu.Raw()))
			}
			// "before the fetch": the opcode byte has not been read in this Step yet
			if len(ms.Log) > 0 && cbOrderErr == nil {
				cbOrderErr = fmt.Errorf("OnPC callback of $%06X ran after the step already accessed the bus (%+v)", a, ms.Log[0])
			}
			if c.PanicOnce && a == c.OnPC[0] && !hookFailed {
				hookFailed = true
				panic(c12HookFailure)
			}
		}
	}
	// the log must be empty at the start of every step: clear it from a wrapper around the memory
	var gotWDM []byte
	sys.CPU.OnWDM = func(b byte) { gotWDM = append(gotWDM, b) }
	lw := &countWriter{onWrite: func() { ms.Log = ms.Log[:0] }} // RunUntil logs before every step: the access log restarts there
	sys.Logger = nil
	if c.Logger {
		sys.Logger = lw
		if c.MemSeed&1 == 1 {
			// every other traced case: the sink also has Reserve/Commit
			gw := &growWriter{}
			gw.onWrite = lw.onWrite
			lw = &gw.countWriter
			sys.Logger = gw
		}
	}
	// clear the access log whenever a new instruction starts: approximated by clearing in the logger and
	// before the run; without a logger the "before the fetch" check only applies to the first step.
	var ret bool
	var pan interface{}
	for attempt := 0; attempt < 2; attempt++ {
		done := make(chan bool, 1)
		pan = nil
		go func() {
			defer func() {
				pan = recover()
				done <- true
			}()
			ret = sys.RunUntil(c.Target, c.Max)
		}()
		select {
		case <-done:
		case <-time.After(30 * time.Second):
			err := fmt.Errorf("RunUntil($%06X, %d) did not return within 30 s (budget is at most %d iterations)", c.Target, c.Max, c.Max)
			if c12OnHang != nil {
				c12OnHang(c, err) // does not return: the stuck goroutine keeps a core busy, nothing else can be trusted to finish
			}
			return err
		}
		if !(c.PanicOnce && attempt == 0 && pan == c12HookFailure) {
			break
		}
		// the hook failed once; the caller recovered and calls RunUntil again: the run goes on from where it was
	}
	sys.Logger = nil
	sys.CPU.OnPC, sys.CPU.OnWDM = nil, nil
	if pan != nil {
		return fmt.Errorf("RunUntil panicked: %v", pan)
	}
	if cbErr != nil {
		return cbErr
	}
	if cbOrderErr != nil && (c.Logger && lw.calls == lw.n || executed <= 1) {
		// (the access log restarts with every trace line only if the lines arrive one Write at a time, as they are produced)
		// without a logger the access log is only known to be empty at the first step
		return cbOrderErr
	}
	rt, rs := twin.Raw(), scpu.Raw()
	if rt != rs {
		return fmt.Errorf("RunUntil($%06X, max %d) ended in a different state than the loop 'while cycles<max and PC!=target: Step': RunUntil %+v, specification %+v", c.Target, c.Max, rs, rt)
	}
	if dm := rig.DiffMem(mt, ms, 4); len(dm) > 0 {
		return fmt.Errorf("RunUntil changed memory differently from the specification loop at $%06X", dm[0])
	}
	if ret != (pcOf(rs) == c.Target) || sys.GetPC() != pcOf(rs) {
		return fmt.Errorf("RunUntil returned %v but PC is $%06X and the target $%06X", ret, pcOf(rs), c.Target)
	}
	for _, a := range c.OnPC {
		if c.PanicOnce && specFailed && a == c.OnPC[0] && gotCalls[a] == wantCalls[a]-1 {
			// (the call that panicked came before a fetch that then did not happen: whether the retried fetch is
			// preceded by a second call is not for the statement to say; the probe at the end asks about later fetches)
			continue
		}
		if gotCalls[a] != wantCalls[a] {
			return fmt.Errorf("OnPC callback of $%06X ran %d times, %d instructions were fetched there (target $%06X)", a, gotCalls[a], wantCalls[a], c.Target)
		}
	}
	if string(gotWDM) != string(wantWDM) {
		return fmt.Errorf("OnWDM received % x, the executed WDM operands were % x", gotWDM, wantWDM)
	}
	// one trace line per executed instruction; the instruction found at the target (looked at, not executed) may be listed too
	if c.Logger && c.Max > 0 && (lw.n < executed || lw.n > wantLogs) {
		return fmt.Errorf("the Logger received %d lines, want %d..%d (%d executed instructions, ended at target inside budget: %v)", lw.n, executed, wantLogs, executed, wantLogs > executed)
	}
	// part C on the alternative interpreter: OnWDM gets exactly the operand of every WDM it executes
	{
		_, alt := cpus()
		ma := rig.NewMem(c.MemSeed)
		for _, p := range c.Patches {
			ma.Poke(p.Addr, p.Val)
		}
		alt.SetMem(ma)
		alt.LoadRaw(c.Init)
		var got, want []byte
		alt.C.OnWDM = func(b byte) { got = append(got, b) }
		var cyc uint64
		for k := 0; cyc < c.Max && k < 200; k++ {
			ra := alt.Raw()
			at := uint32(ra.RK)<<16 | uint32(ra.PC)
			if ma.Peek(at) == 0x42 {
				want = append(want, ma.Peek(at&0xff0000|uint32(uint16(at)+1)))
			}
			mis := ma.Mis
			n, _, p := alt.Step()
			if p != nil || n < 1 {
				break
			}
			if ma.Peek(at) == 0x42 && ma.Mis > mis {
				alt.C.OnWDM = nil
				return fmt.Errorf("cpualt executing the WDM at $%06X %s: on a bus with several devices the callback would not receive the operand", at, ma.BusFault())
			}
			cyc += uint64(n)
		}
		alt.C.OnWDM = nil
		if string(got) != string(want) {
			return fmt.Errorf("cpualt OnWDM received % x, the executed WDM operands were % x", got, want)
		}
	}
	if c.Reset {
		// part D: a stopped CPU keeps reporting stopped until Reset
		stoppedBefore := rs.Stopped
		_, st, p := scpu.Step()
		if p != nil {
			return fmt.Errorf("step after the run panicked: %v", p)
		}
		if stoppedBefore && !st {
			return fmt.Errorf("CPU was stopped by STP but the next Step reported stopped=false")
		}
		if stoppedBefore {
			// only Reset ends the stop condition: moving the program counter through the System does not
			sys.SetPC(sys.GetPC())
			if _, st, p = scpu.Step(); p == nil && !st {
				return fmt.Errorf("CPU was stopped by STP; after System.SetPC the next Step reported stopped=false although no Reset happened")
			}
			// ... and an interrupt taken in between does not
			scpu.SetInterrupt(interruptNMI)
			_, st, p = scpu.Step()
			if p == nil && !st {
				return fmt.Errorf("CPU was stopped by STP; after an NMI was taken the next Step reported stopped=false although no Reset happened")
			}
			scpu.C.I = 0
			scpu.TriggerIRQ()
			_, st, p = scpu.Step()
			if p == nil && !st {
				return fmt.Errorf("CPU was stopped by STP; after an IRQ was taken the next Step reported stopped=false although no Reset happened")
			}
		}
		if p := scpu.Reset(); p != nil {
			return fmt.Errorf("Reset panicked: %v", p)
		}
		if scpu.Raw().Stopped {
			return fmt.Errorf("Reset did not clear the stop condition")
		}
		op := ms.Peek(pcOf(scpu.Raw()))
		_, st, p = scpu.Step()
		if p != nil {
			return fmt.Errorf("step after Reset panicked: %v", p)
		}
		if st != (op == 0xDB) {
			return fmt.Errorf("first Step after Reset (opcode %02x) reported stopped=%v", op, st)
		}
	}
	if c.PanicOnce && specFailed {
		// long after the failure: an instruction fetched at the address of the callback that once panicked is preceded by
		// exactly one call of it, like any other
		calls := 0
		sys.CPU.OnPC = map[uint32]func(){c.OnPC[0]: func() { calls++ }}
		sys.SetPC(c.OnPC[0])
		_, _, p := scpu.Step()
		sys.CPU.OnPC = nil
		if p == nil && calls != 1 {
			return fmt.Errorf("the callback of $%06X panicked once earlier (recovered by the caller); a later Step that fetches at that address called it %d times", c.OnPC[0], calls)
		}
	}
	return nil
}

type c12MarathonCase struct {
	Runs   int `json:"runs"`
	Budget int `json:"budget"`
}

// c12Marathon: runs traced RunUntil calls in a row over a bank full of NOPs (2 cycles each) on the one System the
// check uses throughout; each call must consume exactly its (even) budget and log one line per instruction.
func c12Marathon(runs, budget int) error {
	sys, scpu := c12System()
	m := rig.NewMem(0xC12)
	for a := uint32(0); a < 0x10000; a++ {
		m.Poke(0x010000|a, 0xEA)
	}
	scpu.SetMem(m)
	scpu.C.OnPC, scpu.C.OnWDM = nil, nil
	scpu.LoadRaw(rig.ArchToRaw(wdc.Arch{S: 0x01F0, PC: 0x8000, K: 1, P: 0x34}))
	defer func() { sys.Logger = nil }()
	for i := 0; i < runs; i++ {
		lw := &countWriter{}
		sys.Logger = lw
		before := scpu.Raw().AllCycles
		if p := rig.Safe(func() error { sys.RunUntil(0x123456, uint64(budget)); return nil }); p != nil {
			return fmt.Errorf("traced run %d of %d in a row on one System failed: %v", i+1, runs, p)
		}
		used := scpu.Raw().AllCycles - before
		if used != uint64(budget) || lw.n < budget/2 || lw.n > budget/2+1 {
			return fmt.Errorf("traced run %d of %d in a row on one System (NOPs, budget %d cycles): consumed %d cycles and logged %d lines, want %d and %d", i+1, runs, budget, used, lw.n, budget, budget/2)
		}
	}
	return nil
}

func c12Replay(data []byte) error {
	var rf rig.ReplayFile
	if err := json.Unmarshal(data, &rf); err != nil {
		return err
	}
	if rf.Kind == "marathon" {
		var mc c12MarathonCase
		if err := json.Unmarshal(rf.Case, &mc); err != nil {
			return err
		}
		return c12Marathon(mc.Runs, mc.Budget)
	}
	if rf.Kind == "cell" {
		var c c12Cell
		if err := json.Unmarshal(rf.Case, &c); err != nil {
			return err
		}
		return c12CellCheck(c)
	}
	var c c12RunCase
	if err := json.Unmarshal(rf.Case, &c); err != nil {
		return err
	}
	return c12RunCheck(c)
}

func init() { rig.RegisterReplay("C12", c12Replay) }

func TestC12(t *testing.T) {
	rig.Main(t, "C12", "part A (complete): every opcode x {E=1; E=0 x M x X} x DL zero/non-zero x index values {0,1,$FF} x operand low byte {00,FF} x flags all-clear/all-set "+
		"(both branch outcomes) x displacement {+2,+$7F,-$80} x PC {page start, page end} on both interpreters: cycles >= 1, == CPU.Cycles, AllCycles += cycles, stop flag only for STP; plus every opcode as the first instruction of an interrupt handler entered by that step (IRQ with I clear/set, NMI). "+
		"Parts B-D (rapid): JIT-synthesised programs on emulator.System (flat sparse bus) with RunUntil(target,max) for targets on/off the path and budgets 0, 1, exact-1/+0/+1, large, "+
		"compared with the specification loop run on a twin CPU; OnPC/OnWDM call counts; Logger.Write counts; STP/Reset; every opcode is also stepped on a CPU made with InitFrom, and in a share of the untraced runs the first callback panics once and RunUntil is called again; 700 traced RunUntil calls in a row on one System must each consume exactly their budget.  Non-trivial (B-D) = the target or the budget cut the run short; "+
		"distinct = enumerated cell, or hash(case).",
		func(r *rig.Run) {
			ev := r.Ev
			if rig.Shard() == 0 {
				var n int64
				fail := false
				for _, impl := range []string{"cpu65c816", "cpualt"} {
					for op := 0; op < 256 && !fail; op++ {
						for _, mode := range []struct {
							e bool
							p byte
						}{{true, 0x30}, {false, 0x00}, {false, 0x10}, {false, 0x20}, {false, 0x30}} {
							for _, dl := range []uint16{0x0000, 0x0001} {
								for _, idx := range []uint16{0, 1, 0xFF} {
									for _, lo := range []uint32{0x00, 0xFF} {
										for _, fl := range []byte{0x00, 0xCF} {
											for _, disp := range []uint32{0x02, 0x7F, 0x80} {
												for _, pc := range []uint16{0x1000, 0x10F0} {
													operand := lo | 0x12<<8 | 0x7F<<16
													if md := wdc.Optab[op].Md; md == wdc.MRel8 {
														operand = disp
													} else if md == wdc.MRel16 {
														operand = disp | 0xFF00*(disp>>7)
													} else if disp != 0x02 {
														continue
													}
													c := c12Cell{Impl: impl, Op: byte(op), P: mode.p | fl, E: mode.e, D: dl, X: idx, Y: idx, PC: pc, Operand: operand}
													n++
													if !r.CheckSweep("cell", c, func() error { return c12CellCheck(c) }) {
														fail = true
													}
												}
											}
										}
									}
								}
							}
						}
					}
				}
				// the step that enters an interrupt handler: every opcode as the handler's first instruction x modes x I flag x IRQ/NMI
				var ni int64
				for _, impl := range []string{"cpu65c816", "cpualt"} {
					for op := 0; op < 256 && !fail; op++ {
						for _, mode := range []struct {
							e bool
							p byte
						}{{true, 0x30}, {false, 0x00}, {false, 0x10}, {false, 0x20}, {false, 0x30}} {
							for _, fl := range []byte{0x00, 0x04, 0xCB, 0xCF} {
								for _, in := range []byte{1, 2} {
									operand := uint32(0x7F1200)
									if md := wdc.Optab[op].Md; md == wdc.MRel8 || md == wdc.MRel16 {
										operand = 2
									}
									c := c12Cell{Impl: impl, Op: byte(op), P: mode.p | fl, E: mode.e, PC: 0x1000, Operand: operand, Int: in}
									ni++
									if !r.CheckSweep("cell", c, func() error { return c12CellCheck(c) }) {
										fail = true
									}
								}
							}
						}
					}
				}
				// the same step on a CPU made with InitFrom (into an object that was initialised that way before)
				var nf int64
				for _, impl := range []string{"cpu65c816", "cpualt"} {
					for op := 0; op < 256 && !fail; op++ {
						for _, mode := range []struct {
							e bool
							p byte
						}{{true, 0x30}, {false, 0x00}, {false, 0x30}} {
							operand := uint32(0x7F1200)
							if md := wdc.Optab[op].Md; md == wdc.MRel8 || md == wdc.MRel16 {
								operand = 2
							}
							c := c12Cell{Impl: impl, Op: byte(op), P: mode.p, E: mode.e, PC: 0x1000, Operand: operand, Fork: true}
							nf++
							if !r.CheckSweep("cell", c, func() error { return c12CellCheck(c) }) {
								fail = true
							}
						}
					}
				}
				n += nf
				ev.ClassN("A/cells-stepped-on-an-InitFrom-copy", nf)
				n += ni
				ev.ClassN("A/cells-with-an-interrupt-request", ni)
				ev.Bulk(n, n)
				ev.ClassN("A/cycle-cells", n)
				ev.Sample(c12Cell{Impl: "cpualt", Op: 0xBC, P: 0x30, X: 0xFF, Y: 0xFF, PC: 0x10F0, Operand: 0x7F12FF})
				ev.Extra["part_A_exhaustive_over_its_cell_grid"] = true
			}
			// many traced runs on one System, some seventy thousand instructions in all: every run stays inside its budget
			if rig.Shard() == 1%rig.Shards() {
				if err := c12Marathon(700, 200); err != nil {
					r.Violation("marathon", c12MarathonCase{700, 200}, err)
				}
				ev.Bulk(700, 700)
				ev.ClassN("B/traced-runs-in-a-row-on-one-System", 700)
			}
			twin, _ := cpus()
			var cut int64
			c12OnHang = func(c c12RunCase, err error) { r.AbortViolation("run-hang", c, err) }
			defer func() { c12OnHang = nil }()
			r.Rapid("rununtil", rig.Pick(40000, 150000), func(t *rapid.T) {
				d := rig.RapidDrawer{T: t}
				syn := rig.NewSynth(d, nil)
				op0 := byte(d.U32("op0-pre"))
				if d.Intn("wdm-or-stp", 8) == 0 {
					op0 = []byte{0x42, 0xDB}[d.Intn("which", 2)]
				}
				syn.ForceFirst(op0)
				a := rig.GenArch(d, op0, false)
				a.E = d.Intn("emu", 4) == 0
				c := c12RunCase{Init: rig.ArchToRaw(a), MemSeed: d.U32("memseed")}
				switch d.Intn("prior-cycles", 4) { // the CPU has been running before: the budget counts from this call on
				case 0:
					c.Init.AllCycles = uint64(d.U32("allcycles"))
				case 1:
					c.Init.AllCycles = ^uint64(0) - uint64(d.Intn("allcycles-top", 5000))
				}
				// explore the program on the twin to learn its path
				m := rig.NewMem(c.MemSeed)
				twin.SetMem(m)
				twin.C.OnPC, twin.C.OnWDM = nil, nil
				twin.LoadRaw(c.Init)
				m.DoLog = true
				syn.Mem = m
				nsteps := 1 + d.Intn("steps", rig.Pick(12, 40))
				var path []uint32
				var sums []uint64
				var cyc uint64
				for k := 0; k < nsteps; k++ {
					st := twin.Arch()
					syn.Instr(st)
					path = append(path, uint32(st.K)<<16|uint32(st.PC))
					m.Log = m.Log[:0]
					n, _, p := twin.Step()
					if p != nil {
						t.Skip("program crashes (C08's business)")
					}
					syn.NoteAccess(m.Log)
					cyc += uint64(n)
					sums = append(sums, cyc)
				}
				end := twin.Arch()
				path = append(path, uint32(end.K)<<16|uint32(end.PC))
				c.Patches = syn.Patches
				// target: a PC on the path (first arrival cuts the run), the initial PC, or an address never reached
				ti := 0
				otherBank := -1
				switch d.Intn("target-kind", 7) {
				case 0:
					c.Target = path[0]
				case 1:
					c.Target = 0x123456
					ti = -1
				case 2: // same offset as a PC on the path, but another bank: the budget is solved to end the run exactly there
					otherBank = 1 + d.Intn("other-step", len(path)-1)
					c.Target = path[otherBank] ^ uint32([]uint32{1, 2, 3, 0x80, 0x40, 0xFF}[d.Intn("bank-bit", 6)])<<16 // (also the FastROM mirror bit)
					ti = -1
				default:
					ti = 1 + d.Intn("target-step", len(path)-1)
					c.Target = path[ti]
				}
				// budget relative to the cycle sum at arrival
				arrive := cyc
				if ti > 0 {
					arrive = sums[ti-1]
				}
				switch d.Intn("max-kind", 7) {
				case 0:
					c.Max = 0
				case 1:
					c.Max = 1
				case 2:
					c.Max = arrive - 1
				case 3:
					c.Max = arrive
				case 4:
					c.Max = arrive + 1
				case 5:
					c.Max = uint64(d.Intn("max", int(cyc)+2))
				default:
					c.Max = cyc + 50
				}
				if otherBank > 0 && d.Intn("exact-other", 4) != 0 {
					c.Max = sums[otherBank-1] // the run ends by budget with PC at the target's offset in the wrong bank
				}
				if c.Max > 4000 {
					c.Max = 4000
				}
				if ti > 0 && d.Intn("unlimited", 6) == 0 {
					c.Max = ^uint64(0) - uint64(d.Intn("unl-k", 3)) // "no limit": the run ends by reaching the target
				}
				npc := d.Intn("n-onpc", 4)
				for i := 0; i < npc; i++ {
					c.OnPC = append(c.OnPC, path[d.Intn("onpc", len(path))])
				}
				if d.Intn("onpc-target", 2) == 0 {
					c.OnPC = append(c.OnPC, c.Target)
				}
				c.Logger = d.Intn("logger", 2) == 0
				c.Reset = d.Intn("reset", 3) == 0
				if d.Intn("target-above-24-bits", 16) == 7 {
					// a target that is no 24-bit address can never be reached: the run must go on to its budget and return false
					c.Target |= uint32(1+d.Intn("target-top-byte", 255)) << 24
					if c.Max > 4000 {
						c.Max = 4000
					}
					ev.Class("B/target-with-bits-above-24")
				}
				if d.Intn("warm", 4) == 0 {
					c.Warm = true
					ev.Class("B/one-instruction-run-first-then-callback-map-changed-in-place")
				}
				if len(c.OnPC) > 0 && c.OnPC[0] != c.Target && !c.Logger && !c.Warm && c.Max <= 4000 && d.Intn("hook-panics-once", 3) == 0 {
					c.PanicOnce = true
					ev.Class("C/callback-panics-once-RunUntil-called-again")
				}
				r.Check(t, "run", c, func() error { return c12RunCheck(c) })
				nt := c.Max <= cyc || ti >= 0
				if nt {
					cut++
				}
				raw, _ := json.Marshal(c)
				ev.Case(nt, rig.Hash64(raw), func() interface{} { return c })
				ev.Class(fmt.Sprintf("B/target-kind-%d", map[bool]int{true: 1, false: 0}[ti >= 0]))
				if c.Logger {
					ev.Class("B/with-logger")
				}
				if len(c.OnPC) > 0 {
					ev.Class("C/with-onpc")
				}
				if op0 == 0x42 {
					ev.Class("C/wdm-first")
				}
				if op0 == 0xDB {
					ev.Class("D/stp-first")
				}
				if c.Reset {
					ev.Class("D/reset")
				}
				if otherBank > 0 {
					ev.Class("B/target-same-offset-other-bank")
				}
			})
			ev.Extra["runs_cut_by_target_or_budget"] = cut
			ev.Note("cpualt keeps an OnPC field that its Step() never consults; the statement's 'where the interpreter offers callbacks' is read as: cpu65c816 offers OnPC and OnWDM, cpualt offers OnWDM (checked in C02's lockstep via the WDM register)")
		})
}
