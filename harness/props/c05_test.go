package props

import (
	"encoding/json"
	"errors"
	"fmt"
	"strings"
	"sync/atomic"
	"testing"

	"github.com/alttpo/snes/mapping/util"
	"pgregory.net/rapid"

	"verif/harness/rig"
)

// C05 — each mapper's bus decoding is a well-formed image of its cartridge memory map.

// region is one row of a mapper's documented region table, transcribed as data from the
// comments in mapping/<mapper>/mapping.go and the FX Pak Pro layout:
// pak = base + (((bank - bankSub) & bankMask) << shift) + (offset & offMask)
type region struct {
	bankLo, bankHi uint32
	offLo, offHi   uint32
	class          string
	base           uint32
	bankSub        uint32
	bankMask       uint32
	shift          uint
	offMask        uint32
}

const (
	romBase  = 0x000000
	sramBase = 0xE00000
	wramBase = 0xF50000
)

func lin32k(bl, bh uint32, base uint32) region { // upper half of banks: 32 KiB half-banks packed linearly
	return region{bl, bh, 0x8000, 0xFFFF, "ROM", base, 0, 0x3F, 15, 0x7FFF}
}
func lin64k(bl, bh uint32, base uint32) region { // whole banks packed linearly
	return region{bl, bh, 0x0000, 0xFFFF, "ROM", base, 0, 0x3F, 16, 0xFFFF}
}
func wramLow(bl, bh uint32) region {
	return region{bl, bh, 0x0000, 0x1FFF, "WRAM", wramBase, 0, 0, 0, 0x1FFF}
}
func wramFull() region {
	return region{0x7E, 0x7F, 0x0000, 0xFFFF, "WRAM", wramBase, 0x7E, 1, 16, 0xFFFF}
}

var regionTables = map[string][]region{
	"lorom": {
		lin32k(0xF0, 0xFF, romBase),
		{0xF0, 0xFF, 0x0000, 0x7FFF, "SRAM", sramBase, 0xF0, 0xFF, 15, 0x7FFF},
		lin32k(0x80, 0xEF, romBase), wramLow(0x80, 0xEF),
		wramFull(),
		lin32k(0x70, 0x7D, romBase),
		{0x70, 0x7D, 0x0000, 0x7FFF, "SRAM", sramBase, 0x70, 0xFF, 15, 0x7FFF},
		lin32k(0x00, 0x6F, romBase), wramLow(0x00, 0x6F),
	},
	"hirom": {
		lin64k(0xC0, 0xFF, romBase),
		lin32k(0xA0, 0xBF, romBase),
		{0xA0, 0xBF, 0x6000, 0x7FFF, "SRAM", sramBase, 0xA0, 0xFF, 13, 0x1FFF},
		wramLow(0xA0, 0xBF),
		lin32k(0x80, 0x9F, romBase), wramLow(0x80, 0x9F),
		wramFull(),
		lin64k(0x40, 0x7D, romBase),
		lin32k(0x20, 0x3F, romBase),
		{0x20, 0x3F, 0x6000, 0x7FFF, "SRAM", sramBase, 0x20, 0xFF, 13, 0x1FFF},
		wramLow(0x20, 0x3F),
		lin32k(0x00, 0x1F, romBase), wramLow(0x00, 0x1F),
	},
	"exhirom": {
		lin64k(0xC0, 0xFF, romBase),
		lin32k(0xA0, 0xBF, romBase),
		{0xA0, 0xBF, 0x6000, 0x7FFF, "SRAM", sramBase, 0xA0, 0xFF, 13, 0x1FFF},
		wramLow(0xA0, 0xBF),
		lin32k(0x80, 0x9F, romBase), wramLow(0x80, 0x9F),
		wramFull(),
		lin64k(0x40, 0x7D, 0x400000),
		lin32k(0x00, 0x3F, 0x400000), wramLow(0x00, 0x3F),
	},
	"sa1rom": {
		{0xC0, 0xFF, 0x0000, 0xFFFF, "ROM", romBase, 0xC0, 0xFF, 16, 0xFFFF},
		{0x80, 0xBF, 0x8000, 0xFFFF, "ROM", 0x40 << 15, 0x80, 0xFF, 15, 0x7FFF},
		{0x80, 0xBF, 0x6000, 0x7FFF, "SRAM", sramBase, 0, 0, 0, 0x1FFF},
		wramLow(0x80, 0xBF),
		wramFull(),
		{0x44, 0x4F, 0x0000, 0xFFFF, "SRAM", sramBase, 0, 0, 0, 0x1FFF},
		{0x40, 0x43, 0x0000, 0xFFFF, "SRAM", sramBase, 0x40, 0xFF, 16, 0xFFFF},
		{0x00, 0x3F, 0x8000, 0xFFFF, "ROM", romBase, 0, 0xFF, 15, 0x7FFF},
		{0x00, 0x3F, 0x6000, 0x7FFF, "SRAM", sramBase, 0, 0, 0, 0x1FFF},
		wramLow(0x00, 0x3F),
	},
}

// tableLookup returns (pak, class, mapped) according to the region table.
func tableLookup(mapper string, a uint32) (uint32, string, bool) {
	bank, off := a>>16, a&0xFFFF
	for _, rg := range regionTables[mapper] {
		if bank >= rg.bankLo && bank <= rg.bankHi && off >= rg.offLo && off <= rg.offHi {
			return rg.base + (((bank - rg.bankSub) & rg.bankMask) << rg.shift) + (off & rg.offMask), rg.class, true
		}
	}
	return 0, "", false
}

func isUnmappedResult(v uint32, err error) error {
	if err == nil {
		return nil
	}
	if !errors.Is(err, util.ErrUnmappedAddress) { // the sentinel itself or an error wrapping it
		return fmt.Errorf("error is %v, not the unmapped-address error", err)
	}
	if v != 0 {
		return fmt.Errorf("unmapped-address error returned together with non-zero result $%06X", v)
	}
	return nil
}

// mapSeqCase: the judged call is made right after another one (the answer must not depend on it).
type mapSeqCase struct {
	Prev mapCase `json:"prev"`
	Then mapCase `json:"then"`
}

func c05SeqCheck(sc mapSeqCase) error {
	m, err := mapperByName(sc.Then.Mapper)
	if err != nil {
		return err
	}
	var y uint32
	if sc.Prev.Dir == "pak" {
		y, _ = m.p2b(sc.Prev.Addr)
	} else {
		y, _ = m.b2p(sc.Prev.Addr)
	}
	if err := c05CheckM(m, sc.Then); err != nil {
		return fmt.Errorf("right after the translation of %s address $%06X (= $%06X): %v", sc.Prev.Dir, sc.Prev.Addr, y, err)
	}
	return nil
}

func c05Check(c mapCase) error {
	m, err := mapperByName(c.Mapper)
	if err != nil {
		return err
	}
	return c05CheckM(m, c)
}

func c05CheckM(m mapperT, c mapCase) error {
	a := c.Addr
	switch c.Dir {
	case "bus":
		p, e := m.b2p(a)
		if e != nil {
			if ee := isUnmappedResult(p, e); ee != nil {
				return fmt.Errorf("%s BusAddressToPak($%06X): %v", c.Mapper, a, ee)
			}
		} else {
			// (a) exactly one class window, WRAM only $F50000-$F6FFFF
			switch {
			case p < 0xE00000, p >= 0xE00000 && p < 0xF00000, p >= 0xF50000 && p < 0xF70000:
			default:
				return fmt.Errorf("%s BusAddressToPak($%06X) = $%06X lies in no memory-class window", c.Mapper, a, p)
			}
		}
		// (c) console-owned parts, identical for all mappers
		bank, off := a>>16, a&0xFFFF
		sysBank := bank <= 0x3F || (bank >= 0x80 && bank <= 0xBF)
		switch {
		case bank == 0x7E || bank == 0x7F:
			if e != nil || p != 0xF50000+(a-0x7E0000) {
				return fmt.Errorf("%s BusAddressToPak($%06X) = ($%06X, %v), want WRAM $%06X", c.Mapper, a, p, e, 0xF50000+(a-0x7E0000))
			}
		case sysBank && off < 0x2000:
			if e != nil || p != 0xF50000+(a&0x1FFF) {
				return fmt.Errorf("%s BusAddressToPak($%06X) = ($%06X, %v), want low-WRAM mirror $%06X", c.Mapper, a, p, e, 0xF50000+(a&0x1FFF))
			}
		case sysBank && off >= 0x2000 && off < 0x6000:
			if e == nil {
				return fmt.Errorf("%s BusAddressToPak($%06X) = $%06X but the register area $2000-$5FFF must never be translated", c.Mapper, a, p)
			}
		}
		// (d) page structure: whole 8 KiB pages, order preserved
		page := a &^ 0x1FFF
		pp, pe := m.b2p(page)
		if (pe == nil) != (e == nil) {
			return fmt.Errorf("%s: bus $%06X mapped=%v but its 8 KiB page start $%06X mapped=%v", c.Mapper, a, e == nil, page, pe == nil)
		}
		if e == nil && p != pp+(a&0x1FFF) {
			return fmt.Errorf("%s: BusAddressToPak($%06X) = $%06X but page start $%06X -> $%06X: byte order inside the page not preserved", c.Mapper, a, p, page, pp)
		}
		// (e) documented region table
		tp, tc, tm := tableLookup(c.Mapper, a)
		if tm != (e == nil) {
			return fmt.Errorf("%s: BusAddressToPak($%06X) mapped=%v (result $%06X) but the region table says mapped=%v (%s $%06X)", c.Mapper, a, e == nil, p, tm, tc, tp)
		}
		if tm && (p != tp || pakClass(p) != tc) {
			return fmt.Errorf("%s: BusAddressToPak($%06X) = $%06X (%s) but the region table says %s $%06X", c.Mapper, a, p, pakClass(p), tc, tp)
		}
	case "pak":
		b, e := m.p2b(a)
		reject := a >= 0xF00000 && a <= 0xF4FFFF
		if reject {
			if e == nil {
				return fmt.Errorf("%s PakAddressToBus($%06X) = $%06X but the unassigned window $F00000-$F4FFFF must be rejected", c.Mapper, a, b)
			}
			if ee := isUnmappedResult(b, e); ee != nil {
				return fmt.Errorf("%s PakAddressToBus($%06X): %v", c.Mapper, a, ee)
			}
			return nil
		}
		if e != nil {
			return fmt.Errorf("%s PakAddressToBus($%06X) rejected (%v) although only $F00000-$F4FFFF is unassigned", c.Mapper, a, e)
		}
		if b >= 1<<24 {
			return fmt.Errorf("%s PakAddressToBus($%06X) = $%X is not a 24-bit bus address", c.Mapper, a, b)
		}
		// the bus address it names belongs to the same memory class (a ROM cell is never placed on WRAM or SRAM bus space)
		if p2, e2 := m.b2p(b); e2 != nil || pakClass(p2) != pakClass(a) {
			return fmt.Errorf("%s PakAddressToBus($%06X) = $%06X, which the bus decoding treats as ($%06X %s, %v) although the pak address is %s", c.Mapper, a, b, p2, pakClass(p2), e2, pakClass(a))
		}
		page := a &^ 0x1FFF
		if page >= 0xF00000 && page <= 0xF4FFFF {
			return nil
		}
		pb, pe := m.p2b(page)
		if pe != nil {
			return fmt.Errorf("%s: pak $%06X accepted but its 8 KiB page start $%06X rejected", c.Mapper, a, page)
		}
		if b != pb+(a&0x1FFF) {
			return fmt.Errorf("%s: PakAddressToBus($%06X) = $%06X but page start $%06X -> $%06X: byte order inside the page not preserved", c.Mapper, a, b, page, pb)
		}
	default:
		return fmt.Errorf("bad dir %q", c.Dir)
	}
	return nil
}

func init() {
	rig.RegisterReplay("C05", func(data []byte) error {
		var rf rig.ReplayFile
		if err := json.Unmarshal(data, &rf); err == nil && strings.HasSuffix(rf.Kind, "-mixed") {
			var sc mapSeqCase
			if err := json.Unmarshal(rf.Case, &sc); err != nil {
				return err
			}
			return c05SeqCheck(sc)
		}
		c, err := decodeMapCase(data)
		if err != nil {
			return err
		}
		return c05Check(c)
	})
}

func TestC05(t *testing.T) {
	rig.Main(t, "C05", "complete enumeration of all 2^24 bus and all 2^24 pak addresses for each of the 4 mappers against: the error/window "+
		"contract, the console-owned regions common to all mappers, the 8 KiB page structure (table-free) and a per-mapper region table "+
		"transcribed as data from the documented layout; a second process repeats the enumeration with the mappers and the two directions in reverse order, before the committed regression cases are replayed.  Distinct = (mapper, direction, address); non-trivial = translated, or within 2 bytes of "+
		"an 8 KiB page edge of an untranslated page that borders a translated one.",
		func(r *rig.Run) {
			ev := r.Ev
			ev.Exhaustive = true
			// the second shard (a process of its own) makes the same sweep with the mappers and the two directions in reverse
			// order: a translation must not depend on which mapper or direction was used first in the process; its sweep is
			// not counted a second time in the evidence
			order, dirs := mappers, []string{"bus", "pak"}
			recount := rig.Shard()%2 == 1
			if recount {
				order = nil
				for i := len(mappers) - 1; i >= 0; i-- {
					order = append(order, mappers[i])
				}
				dirs = []string{"pak", "bus"}
			}
			for _, m := range order {
				for _, dir := range dirs {
					var mf rig.MinFail
					var nontriv, mappedN int64
					m, dir := m, dir
					f := m.b2p
					if dir == "pak" {
						f = m.p2b
					}
					panicAt, perr := rig.ParChunks(1<<24, 1<<16, func(lo, hi uint64) {
						var n, mp int64
						for a := lo; a < hi; a++ {
							if mf.Failed() {
								break
							}
							c := mapCase{m.name, dir, uint32(a)}
							if err := c05CheckM(m, c); err != nil {
								mf.Report(a, err, c)
							}
							if _, e := f(uint32(a)); e == nil {
								n++
								mp++
							} else if o := uint32(a) & 0x1FFF; o < 2 || o > 0x1FFD {
								// edge of an untranslated page: non-trivial when the neighbouring page is translated
								nb := uint32(a) + 2
								if o < 2 {
									nb = uint32(a) - 2
								}
								if nb < 1<<24 {
									if _, e2 := f(nb); e2 == nil {
										n++
									}
								}
							}
						}
						atomic.AddInt64(&nontriv, n)
						atomic.AddInt64(&mappedN, mp)
					})
					if perr != nil { // locate the panicking address
						for a := panicAt; a < panicAt+1<<16; a++ {
							c := mapCase{m.name, dir, uint32(a)}
							if err := rig.Safe(func() error { return c05Check(c) }); err != nil {
								mf.Report(a, err, c)
								break
							}
						}
					}
					if mf.Failed() {
						_, err, d := mf.Get()
						r.Violation(m.name+"-"+dir, d, err)
					}
					if recount {
						ev.ClassN("swept-again-with-mappers-and-directions-in-reverse-order(not-counted-as-cases)", 1<<24)
						continue
					}
					ev.Bulk(1<<24, nontriv)
					ev.ClassN(m.name+"/"+dir+"/translated", mappedN)
					ev.ClassN(m.name+"/"+dir+"/hole-edges", nontriv-mappedN)
				}
				ev.Sample(mapCase{m.name, "bus", 0x3F1FFF})
				// the functions are stateless: an answer may not depend on the calls made before it.  One goroutine walks both
				// address spaces with a coarse stride, ascending and descending, and follows every successful translation
				// by a call of the opposite direction into the same 8 KiB page (where a remembered page pair would be reused)
				var mixed int64
				walk := func(x uint32) bool {
					for _, dir := range []string{"pak", "bus"} {
						f, back := m.p2b, "bus"
						if dir == "bus" {
							f, back = m.b2p, "pak"
						}
						y, e := f(x)
						if e != nil {
							continue
						}
						for _, c := range []mapCase{{m.name, back, y ^ 1}, {m.name, back, y&^0x1FFF | (x+0x20)&0x1FFF}, {m.name, dir, x ^ 2}} {
							mixed++
							sc := mapSeqCase{Prev: mapCase{m.name, dir, x}, Then: c}
							if err := c05SeqCheck(sc); err != nil {
								r.Violation(m.name+"-mixed", sc, err)
								return false
							}
						}
					}
					return true
				}
				ok := true
				for x := uint32(0); x < 1<<24 && ok; x += 0x3FB {
					ok = walk(x)
				}
				for x := uint32(1<<24 - 1); x >= 0x3FB && ok; x -= 0x3FB {
					ok = walk(x)
				}
				if !recount {
					ev.Bulk(mixed, mixed)
				}
				ev.ClassN(m.name+"/calls-right-after-a-call-of-the-opposite-direction-into-the-same-page", mixed)
			}
			r.Rapid("rapid", rig.Pick(20000, 200000), func(t *rapid.T) {
				c := mapCase{rapid.SampledFrom([]string{"lorom", "hirom", "exhirom", "sa1rom"}).Draw(t, "mapper"),
					rapid.SampledFrom([]string{"bus", "pak"}).Draw(t, "dir"), genAddr24(t, "addr")}
				r.Check(t, "rapid", c, func() error { return c05Check(c) })
				ev.Case(true, rig.Hash64(c.Mapper, c.Dir, c.Addr), func() interface{} { return c })
			})
			ev.Assumption("region tables transcribed by hand from the comments of mapping/*/mapping.go; a mistake there would show as a violation on the unchanged tree, not mask one")
		})
}
