package props

import (
	"bytes"
	"encoding/json"
	"fmt"
	"io"
	"regexp"
	"strconv"
	"strings"
	"testing"

	"github.com/alttpo/snes/asm"
	"pgregory.net/rapid"

	"verif/harness/asmcat"
	"verif/harness/rig"
)

// C15 — assembler listings reproduce exactly the bytes that were emitted.

type c15Case struct {
	Ops      []asmcat.Op `json:"ops"`
	Tight    bool        `json:"tight"`    // buffer exactly as large as the program
	Finalize bool        `json:"finalize"` // list again after Finalize
	// ops[CloneFrom:CloneTo] are emitted into a Clone which is appended back (0,0 = everything directly)
	CloneFrom int `json:"clone_from,omitempty"`
	CloneTo   int `json:"clone_to,omitempty"`
	// Short > 0 (no clone, no aliased data): the buffer is that many bytes too small; the calls that do not fit are
	// refused (the caller recovers and goes on) and must leave no trace in the listings
	Short int `json:"short,omitempty"`
	// ListAt > 0: both listings are also produced before op ListAt (and thrown away); the program is continued afterwards
	ListAt int `json:"list_at,omitempty"`
}

var reHexTok = regexp.MustCompile(`0x([0-9a-f]{2}),`)

func c15Hex(p *emPair, when string) error {
	want := append([]byte(nil), p.em.Bytes()...)
	var buf bytes.Buffer
	var err error
	if pe := rig.Safe(func() error { err = p.em.WriteHexTo(&buf); return nil }); pe != nil {
		return fmt.Errorf("%s: WriteHexTo failed: %v", when, pe)
	}
	if err != nil {
		return fmt.Errorf("%s: WriteHexTo returned %v", when, err)
	}
	var got []byte
	for _, line := range strings.Split(buf.String(), "\n") {
		if i := strings.Index(line, "//"); i >= 0 {
			line = line[:i]
		}
		for _, m := range reHexTok.FindAllStringSubmatch(line, -1) {
			v, _ := strconv.ParseUint(m[1], 16, 8)
			got = append(got, byte(v))
		}
	}
	if !bytes.Equal(got, want) {
		i := firstDiff(got, want)
		return fmt.Errorf("%s: hex listing holds %d bytes, Bytes() has %d; first difference at byte %d (listing % x..., emitted % x...)", when, len(got), len(want), i, tail(got, i), tail(want, i))
	}
	if !bytes.Equal(p.em.Bytes(), want) {
		return fmt.Errorf("%s: WriteHexTo altered the program", when)
	}
	return nil
}

func tail(b []byte, i int) []byte {
	if i > len(b) {
		i = len(b)
	}
	e := i + 6
	if e > len(b) {
		e = len(b)
	}
	return b[i:e]
}

func c15Text(p *emPair, when string) error {
	code := append([]byte(nil), p.em.Bytes()...)
	var buf bytes.Buffer
	var err error
	if pe := rig.Safe(func() error { err = p.em.WriteTextTo(&buf); return nil }); pe != nil {
		return fmt.Errorf("%s: WriteTextTo failed: %v", when, pe)
	}
	if err != nil {
		return fmt.Errorf("%s: WriteTextTo returned %v", when, err)
	}
	if !bytes.Equal(p.em.Bytes(), code) {
		return fmt.Errorf("%s: WriteTextTo altered the program", when)
	}
	lines := strings.Split(buf.String(), "\n")
	if n := len(lines); n > 0 && lines[n-1] == "" {
		lines = lines[:n-1]
	}
	li := 0
	next := func(rec int, what string) (string, error) {
		if li >= len(lines) {
			return "", fmt.Errorf("%s: text listing ends after %d lines, record %d (%s) is missing", when, len(lines), rec, what)
		}
		li++
		return lines[li-1], nil
	}
	for ri, rec := range p.m.Lines {
		switch rec.Kind {
		case "base":
			l, err := next(ri, "base directive")
			if err != nil {
				return err
			}
			if want := fmt.Sprintf("base $%06x", rec.Addr); l != want {
				return fmt.Errorf("%s: listing line %d is %q, want the base directive %q here (it was issued before the following lines)", when, li, l, want)
			}
		case "comment":
			l, err := next(ri, "comment")
			if err != nil {
				return err
			}
			if want := "    ; " + rec.Text; l != want {
				return fmt.Errorf("%s: listing line %d is %q, want the comment %q here", when, li, l, want)
			}
		case "label":
			l, err := next(ri, "label")
			if err != nil {
				return err
			}
			if l != rec.Label+":" {
				return fmt.Errorf("%s: listing line %d is %q, want the label %q here", when, li, l, rec.Label+":")
			}
		case "db":
			l1, err := next(ri, "data address")
			if err != nil {
				return err
			}
			if want := fmt.Sprintf("    ; $%06x", rec.Addr); l1 != want {
				return fmt.Errorf("%s: listing line %d is %q, want the data block address line %q", when, li, l1, want)
			}
			l2, err := next(ri, "data bytes")
			if err != nil {
				return err
			}
			if !strings.HasPrefix(l2, "    db ") {
				return fmt.Errorf("%s: listing line %d is %q, want a db line", when, li, l2)
			}
			var got []byte
			for _, tok := range strings.Split(strings.TrimPrefix(l2, "    db "), ", ") {
				if len(tok) != 3 || tok[0] != '$' {
					return fmt.Errorf("%s: listing line %d: malformed db token %q in %q", when, li, tok, l2)
				}
				v, e := strconv.ParseUint(tok[1:], 16, 8)
				if e != nil {
					return fmt.Errorf("%s: listing line %d: malformed db token %q", when, li, tok)
				}
				got = append(got, byte(v))
			}
			if want := code[rec.Off : rec.Off+rec.N]; !bytes.Equal(got, want) {
				return fmt.Errorf("%s: db line for $%06x lists [% x], the bytes there are [% x]", when, rec.Addr, got, want)
			}
		case "ins":
			l, err := next(ri, "instruction")
			if err != nil {
				return err
			}
			i := strings.LastIndex(l, " ; $")
			if i < 0 || !(strings.HasPrefix(l, "    ") || strings.HasPrefix(l, "!!  ")) {
				return fmt.Errorf("%s: listing line %d is %q, want an instruction line for $%06x", when, li, l, rec.Addr)
			}
			rest := l[i+4:]
			if j := strings.Index(rest, "  !!"); j >= 0 {
				rest = rest[:j]
			}
			f := strings.SplitN(rest, "  ", 2)
			if len(f) != 2 {
				return fmt.Errorf("%s: listing line %d: cannot find address and bytes in %q", when, li, l)
			}
			if want := fmt.Sprintf("%06x", rec.Addr); f[0] != want {
				return fmt.Errorf("%s: instruction line %d shows address $%s, its bytes sit at $%s: %q", when, li, f[0], want, l)
			}
			got, e := parseHexBytes(f[1])
			if e != nil {
				return fmt.Errorf("%s: listing line %d: %v", when, li, e)
			}
			if want := code[rec.Off : rec.Off+rec.N]; !bytes.Equal(got, want) {
				return fmt.Errorf("%s: instruction line for $%06x lists [% x], the bytes there are [% x]: %q", when, rec.Addr, got, want, l)
			}
			if rec.Label != "" && !strings.Contains(l[:i], rec.Label) {
				return fmt.Errorf("%s: instruction line for $%06x does not mention its label %q: %q", when, rec.Addr, rec.Label, l)
			}
		}
	}
	if li != len(lines) {
		return fmt.Errorf("%s: text listing has %d extra line(s), first: %q", when, len(lines)-li, lines[li])
	}
	return nil
}

func c15Check(c c15Case) error {
	capacity := needOf(c.Ops)
	if !c.Tight {
		capacity += 64
	}
	useClone := c.CloneTo > c.CloneFrom && c.CloneTo <= len(c.Ops)
	if c.Short > 0 && !useClone {
		if capacity = needOf(c.Ops) - c.Short; capacity < 1 {
			capacity = 1
		}
	}
	buf := make([]byte, capacity)
	p := &emPair{em: asm.NewEmitter(buf, true), m: asmcat.NewModel(capacity, false, true), target: buf}
	orig := p.em
	var detached *asm.Emitter
	useDetached := func() {
		if detached != nil {
			_ = rig.Safe(func() error {
				detached.Comment("variant")
				detached.EmitBytes([]byte{0xDE, 0xAD, 0xBE})
				return nil
			})
		}
	}
	join := func() error {
		var pan interface{}
		func() {
			defer func() { pan = recover() }()
			orig.Append(p.em)
		}()
		if pan != nil {
			return fmt.Errorf("Append of the clone failed: %v", pan)
		}
		// the clone is an emitter of its own and may be used further after it was appended (say, to build a variant):
		// that is no call on the original and must not show in the original's program or listings
		detached = p.em
		useDetached()
		p.em, p.lenBias, p.target = orig, 0, buf
		return nil
	}
	for i, o := range c.Ops {
		if useClone && i == c.CloneFrom {
			p.lenBias = orig.Len()
			p.target = make([]byte, capacity)
			p.em = orig.Clone(p.target)
		}
		if useClone && i == c.CloneTo {
			if err := join(); err != nil {
				return err
			}
		}
		if c.ListAt > 0 && i == c.ListAt {
			// a look at the listing in the middle of the work: it must not change what the emitter accepts afterwards
			if pe := rig.Safe(func() error {
				if err := p.em.WriteTextTo(io.Discard); err != nil {
					return err
				}
				return p.em.WriteHexTo(io.Discard)
			}); pe != nil {
				return fmt.Errorf("listing before op %d failed: %v", i, pe)
			}
		}
		if err := p.step(i, o); err != nil {
			return err
		}
	}
	if useClone && p.em != orig {
		if err := join(); err != nil {
			return err
		}
	}
	useDetached() // once more after the original's own later calls
	if !bytes.Equal(p.em.Bytes(), p.m.Bytes) {
		return fmt.Errorf("emitted image differs from the model at byte %d", firstDiff(p.em.Bytes(), p.m.Bytes))
	}
	if err := c15Hex(p, "before Finalize"); err != nil {
		return err
	}
	if err := c15Text(p, "before Finalize"); err != nil {
		return err
	}
	if c.Finalize {
		if err := c06Finalize(p, 1); err != nil {
			return err
		}
		if err := c15Hex(p, "after Finalize"); err != nil {
			return err
		}
		if err := c15Text(p, "after Finalize"); err != nil {
			return err
		}
	}
	return nil
}

func init() {
	rig.RegisterReplay("C15", func(data []byte) error {
		var rf rig.ReplayFile
		if err := json.Unmarshal(data, &rf); err != nil {
			return err
		}
		var c c15Case
		if err := json.Unmarshal(rf.Case, &c); err != nil {
			return err
		}
		return c15Check(c)
	})
}

func TestC15(t *testing.T) {
	rig.Main(t, "C15", "rapid emitter histories with listing generation on (instructions, labels, label references, comments up to 300 printable characters, data blocks of "+
		"0,1,2,15,16,17,31,32,33,47,48,49,64,65,80 bytes, optional base set first; a quarter of the data blocks are handed over as a window of the target buffer itself that overlaps the destination), buffer exactly as large as the program in a quarter of the cases, listed before and after Finalize: "+
		"the hex listing's 0x.., tokens left of any // must concatenate to Bytes(); the text listing is walked in lockstep with the model's line records (address and bytes of every "+
		"instruction and db line, labels/comments/base directives where issued); both writers return nil and leave the program unchanged; a sixth of the clone-free histories run in a buffer that is 1-40 bytes too small, a third produce both listings also in the middle of the program, and programs with comments of 0.5-9 KiB are listed; the listings are produced 255, 256, 257 and 512 records apart.  Non-trivial = the history has a data block longer "+
		"than 16 bytes or a label reference; distinct = hash(case).",
		func(r *rig.Run) {
			ev := r.Ev
			// large programs: data blocks and total sizes beyond 4 KiB / 64 KiB, several hundred lines, a base that makes the
			// addresses run across a bank boundary
			if rig.Shard() == 0 {
				nop := asmcat.Op{Kind: "ins", Method: "NOP"}
				var many []asmcat.Op
				for i := 0; i < 700; i++ {
					many = append(many, nop)
					if i%100 == 50 {
						many = append(many, asmcat.Op{Kind: "comment", Text: fmt.Sprint("block ", i)}, asmcat.Op{Kind: "data", V: 33, Seed: uint32(i)})
					}
				}
				// comments of 500 bytes to 9 KiB between runs of short lines (whatever buffering the writers do, the
				// lines come out in the order they were issued)
				var longComments []asmcat.Op
				for i, n := range []int{120, 40, 100, 7, 130, 60} {
					for k := 0; k < n; k++ {
						longComments = append(longComments, nop)
					}
					longComments = append(longComments, asmcat.Op{Kind: "comment", Text: strings.Repeat(fmt.Sprintf("long comment %d. ", i), []int{36, 300, 40, 600, 33, 280}[i])})
				}
				longComments = append(longComments, nop)
				for bi, ops := range [][]asmcat.Op{
					{{Kind: "data", V: 4097, Seed: 1}, nop},
					{nop, {Kind: "data", V: 65535, Seed: 2}, nop, {Kind: "data", V: 17, Seed: 3}, {Kind: "label", Label: "l0"}, nop},
					{{Kind: "setbase", V: 0x7EFFF0}, {Kind: "data", V: 40, Seed: 4}, {Kind: "label", Label: "l0"}, nop, {Kind: "data", V: 70000, Seed: 5}, nop},
					many,
					longComments,
				} {
					c := c15Case{Ops: ops, Tight: bi%2 == 0}
					r.CheckSweep("large", c, func() error { return c15Check(c) })
					ev.Case(true, rig.Hash64("large", bi), nil)
					ev.Class("large-program(>4KiB-or->64KiB-or-700-lines)")
				}
			}
			// a look at the listings, then exactly 255, 256, 257 and 512 more records, then the listings again
			if rig.Shard() == 1%rig.Shards() {
				nop := asmcat.Op{Kind: "ins", Method: "NOP"}
				for _, more := range []int{255, 256, 257, 512} {
					for _, mix := range []bool{false, true} {
						var ops []asmcat.Op
						for i := 0; i < 10+more; i++ {
							if mix && i%3 == 1 {
								ops = append(ops, asmcat.Op{Kind: "comment", Text: fmt.Sprint("line ", i)})
							} else {
								ops = append(ops, nop)
							}
						}
						c := c15Case{Ops: ops, ListAt: 10, Finalize: true}
						r.CheckSweep("large", c, func() error { return c15Check(c) })
						ev.Case(true, rig.Hash64("records-between-listings", more, mix), nil)
						ev.Class("listings-256-records-apart")
					}
				}
			}
			r.Rapid("rapid", rig.Pick(25000, 100000), func(t *rapid.T) {
				c := c15Case{Tight: rapid.IntRange(0, 3).Draw(t, "tight") == 0, Finalize: rapid.Bool().Draw(t, "finalize")}
				c.Ops = asmcat.GenHistory(t, asmcat.GenOpts{MaxOps: rig.Pick(30, 80), Labels: true, Data: true, Comments: true, LongComments: true, SetBase: true, Assume: true})
				if rapid.IntRange(0, 5).Draw(t, "short") == 0 {
					c.Short = rapid.IntRange(1, 40).Draw(t, "short-by")
				}
				for i := range c.Ops {
					if o := &c.Ops[i]; c.Short == 0 && o.Kind == "data" && o.V >= 2 && rapid.IntRange(0, 3).Draw(t, "from-own-buffer") == 0 {
						o.Alias = uint32(rapid.IntRange(1, int(o.V)-1).Draw(t, "alias-distance"))
						ev.Class("data-block-emitted-from-an-overlapping-window-of-the-target-buffer")
					}
				}
				if len(c.Ops) > 1 && rapid.IntRange(0, 3).Draw(t, "via-clone") == 0 {
					c.CloneFrom = rapid.IntRange(0, len(c.Ops)-1).Draw(t, "clone-from")
					c.CloneTo = rapid.IntRange(c.CloneFrom+1, len(c.Ops)).Draw(t, "clone-to")
				}
				if c.CloneTo > 0 {
					c.Short = 0
				}
				if len(c.Ops) > 1 && rapid.IntRange(0, 2).Draw(t, "list-in-the-middle") == 0 {
					c.ListAt = rapid.IntRange(1, len(c.Ops)-1).Draw(t, "list-at")
					ev.Class("listings-also-produced-in-the-middle-of-the-program")
				}
				if c.Short > 0 {
					ev.Class("buffer-too-small-by-1-to-40-bytes:refused-calls-must-not-show-in-the-listings")
				}
				r.Check(t, "rapid", c, func() error { return c15Check(c) })
				nt := false
				for i, o := range c.Ops {
					switch {
					case o.Kind == "data" && o.V > 16:
						nt = true
						ev.Class("data-block>16")
					case o.Kind == "data":
						ev.Class("data-block<=16")
					case o.Kind == "ins" && o.Label != "":
						nt = true
					case o.Kind == "comment" && len(o.Text) > 100:
						ev.Class("comment>100-chars")
					case o.Kind == "label" && i > 0 && c.Ops[i-1].Kind == "setbase":
						ev.Class("label-right-after-setbase")
					}
				}
				if c.Tight {
					ev.Class("tight-buffer")
				}
				if c.CloneTo > c.CloneFrom {
					ev.Class("part-emitted-through-Clone+Append")
				}
				if c.Finalize {
					ev.Class("listed-after-finalize")
				}
				raw, _ := json.Marshal(c)
				ev.Case(nt, rig.Hash64(raw), func() interface{} { return c })
			})
			ev.Assumption("comments and label names contain no line breaks; refused calls are not part of the histories (the buffer always fits the program)")
		})
}
