package props

import (
	"bytes"
	"encoding/json"
	"fmt"
	"github.com/alttpo/snes/emulator/memory"
	"testing"

	"github.com/alttpo/snes/emulator"
	"github.com/alttpo/snes/emulator/bus"
	"github.com/alttpo/snes/mapping/lorom"

	"verif/harness/rig"
)

// C11 — the emulated System's memory map is the LoROM map of the mapper package.

type c11Case struct {
	Seed uint32 `json:"seed"`
	Addr uint32 `json:"addr"`
}

type c11Sys struct {
	s               *emulator.System
	seed            uint32
	rom, wram, sram []byte  // golden copies
	parent          *c11Sys // the System this one was copied from, if any
}

func c11Fill(seed uint32) *c11Sys {
	s := &emulator.System{}
	// the image is loaded first (its header bytes at $7FC0.. look like a small LoROM cartridge's), then the console is built:
	// the memory map does not depend on what the arrays hold
	for i := range s.ROM {
		s.ROM[i] = rig.Mix(seed^0x524F4D, uint32(i))
	}
	s.ROM[0x7FD5], s.ROM[0x7FD6], s.ROM[0x7FD7], s.ROM[0x7FD8] = 0x20, 0x02, 0x08+byte(seed&1), 1+byte(seed>>1&3)
	// ... with a checksum and its complement that belong together, the way header detection wants them
	s.ROM[0x7FDC], s.ROM[0x7FDD] = ^s.ROM[0x7FDE], ^s.ROM[0x7FDF]
	for i := range s.WRAM {
		s.WRAM[i] = rig.Mix(seed^0x5752414D, uint32(i))
	}
	for i := range s.SRAM {
		s.SRAM[i] = rig.Mix(seed^0x5352414D, uint32(i))
	}
	if err := s.CreateEmulator(); err != nil {
		panic(err)
	}
	return &c11Sys{s: s, seed: seed, rom: append([]byte(nil), s.ROM[:]...), wram: append([]byte(nil), s.WRAM[:]...), sram: append([]byte(nil), s.SRAM[:]...)}
}

// c11FillCopy builds the System the way a caller forks a console: struct copy of a running System,
// CreateEmulator on the copy (which must re-wire it to its own arrays), then its own contents.  The
// parent stays alive with different contents.
func c11FillCopy(seed uint32) *c11Sys {
	parent := c11Fill(seed ^ 0x77777777)
	s := &emulator.System{}
	*s = *parent.s
	// the map is (re)built on request, any number of times: 140 more times on this System after its bus was cleared once (more than
	// 2^16 Attach calls on one bus in total)
	for i := 0; i < 141; i++ {
		if i == 1 {
			s.Bus = bus.Bus{}
		}
		if err := s.CreateEmulator(); err != nil {
			panic(err)
		}
	}
	for i := range s.ROM {
		s.ROM[i] = rig.Mix(seed^0x524F4D, uint32(i))
	}
	for i := range s.WRAM {
		s.WRAM[i] = rig.Mix(seed^0x5752414D, uint32(i))
	}
	for i := range s.SRAM {
		s.SRAM[i] = rig.Mix(seed^0x5352414D, uint32(i))
	}
	return &c11Sys{s: s, seed: seed, parent: parent, rom: append([]byte(nil), s.ROM[:]...), wram: append([]byte(nil), s.WRAM[:]...), sram: append([]byte(nil), s.SRAM[:]...)}
}

// documented layout of the emulated console (comments of CreateEmulator)
func c11InT(a uint32) bool {
	bank, off := a>>16, a&0xFFFF
	sys := bank <= 0x3F || (bank >= 0x80 && bank <= 0xBF)
	switch {
	case sys && off >= 0x8000:
		return true // ROM
	case sys && off < 0x2000:
		return true // low WRAM mirror
	case bank == 0x7E || bank == 0x7F:
		return true
	case (bank == 0x70 || bank == 0x71 || bank == 0xF0 || bank == 0xF1) && off < 0x8000:
		return true // SRAM
	}
	return false
}

// cell returns the backing array and index the mapper designates.
func (q *c11Sys) cell(a uint32) (string, []byte, []byte, uint32, error) {
	p, err := lorom.BusAddressToPak(a)
	if err != nil {
		return "", nil, nil, 0, err
	}
	switch {
	case p < 0xE00000:
		return "ROM", q.s.ROM[:], q.rom, p, nil
	case p < 0xF00000:
		return "SRAM", q.s.SRAM[:], q.sram, p - 0xE00000, nil
	case p >= 0xF50000 && p < 0xF70000:
		return "WRAM", q.s.WRAM[:], q.wram, p - 0xF50000, nil
	}
	return "", nil, nil, 0, fmt.Errorf("pak address $%06X in no class", p)
}

// diffArrays finds the first cell that differs from the golden copy.
func (q *c11Sys) diffArrays() (string, int) {
	if !bytes.Equal(q.s.WRAM[:], q.wram) {
		return "WRAM", firstDiff(q.s.WRAM[:], q.wram)
	}
	if !bytes.Equal(q.s.SRAM[:], q.sram) {
		return "SRAM", firstDiff(q.s.SRAM[:], q.sram)
	}
	if !bytes.Equal(q.s.ROM[:], q.rom) {
		return "ROM", firstDiff(q.s.ROM[:], q.rom)
	}
	return "", -1
}

func (q *c11Sys) restore() {
	copy(q.s.ROM[:], q.rom)
	copy(q.s.WRAM[:], q.wram)
	copy(q.s.SRAM[:], q.sram)
}

// checkIn checks one address of T (read, write, restore); it does not scan the arrays.
func (q *c11Sys) checkIn(a uint32) error {
	class, arr, gold, i, err := q.cell(a)
	if err != nil {
		return fmt.Errorf("$%06X is ROM/SRAM/WRAM in the emulated console but lorom.BusAddressToPak rejects it: %v", a, err)
	}
	if int(i) >= len(arr) {
		return nil // cell lies outside the emulator's backing array (not backed): nothing to compare
	}
	var got byte
	if pe := rig.Safe(func() error { got = q.s.Bus.EaRead(a); return nil }); pe != nil {
		return fmt.Errorf("EaRead($%06X) fails (%v) but the address is %s[$%X]", a, pe, class, i)
	}
	if got != gold[i] {
		return fmt.Errorf("EaRead($%06X) = %02x but the mapper designates %s[$%X] = %02x", a, got, class, i, gold[i])
	}
	// the array is the storage: changing it directly shows on the next read of the same address
	arr[i] = gold[i] ^ 0x3C
	var again byte
	if pe := rig.Safe(func() error { again = q.s.Bus.EaRead(a); return nil }); pe != nil || again != gold[i]^0x3C {
		arr[i] = gold[i]
		return fmt.Errorf("after %s[$%X] was changed to %02x directly, EaRead($%06X) returns %02x (%v)", class, i, gold[i]^0x3C, a, again, pe)
	}
	arr[i] = gold[i]
	nv := ^gold[i]
	if pe := rig.Safe(func() error { q.s.Bus.EaWrite(a, nv); return nil }); pe != nil {
		return fmt.Errorf("EaWrite($%06X) fails (%v) but the address is %s[$%X]", a, pe, class, i)
	}
	if arr[i] != nv {
		return fmt.Errorf("EaWrite($%06X, %02x) did not change %s[$%X] (still %02x)", a, nv, class, i, arr[i])
	}
	arr[i] = gold[i]
	return nil
}

// check24: the bus's 24-bit read (three bytes, wrapping inside the bank) agrees with three single reads
// whenever all three addresses belong to the console's layout.
func (q *c11Sys) check24(bank uint32, off uint16) error {
	var want uint32
	for i := uint16(0); i < 3; i++ {
		a := bank<<16 | uint32(off+i)
		if !c11InT(a) {
			return nil
		}
		class, _, gold, idx, err := q.cell(a)
		if err != nil || int(idx) >= len(gold) {
			return nil
		}
		_ = class
		want |= uint32(gold[idx]) << (8 * i)
	}
	var got uint32
	if pe := rig.Safe(func() error { got = q.s.Bus.EaRead24_wrap(byte(bank), off); return nil }); pe != nil {
		return fmt.Errorf("EaRead24_wrap($%02X,$%04X) fails (%v) although its three bytes are ROM/SRAM/WRAM cells", bank, off, pe)
	}
	if got != want {
		return fmt.Errorf("EaRead24_wrap($%02X,$%04X) = $%06X, the three cells the mapper designates hold $%06X", bank, off, got, want)
	}
	return nil
}

// checkDump: EaDump over [start, start+n) puts, for every address of the console's layout, the designated cell
// at position address-start and leaves the positions of unattached addresses untouched.
func (q *c11Sys) checkDump(start uint32, n int) error {
	if start+uint32(n) > 1<<24 {
		n = int(1<<24 - start)
	}
	buf := make([]byte, n)
	for i := range buf {
		buf[i] = 0xA5
	}
	var cnt int
	if pe := rig.Safe(func() error { cnt = q.s.Bus.EaDump(start, start+uint32(n)-1, buf); return nil }); pe != nil {
		return fmt.Errorf("EaDump($%06X,+%d) failed: %v", start, n, pe)
	}
	if cnt != n {
		return fmt.Errorf("EaDump($%06X,$%06X) returned %d, want %d", start, start+uint32(n)-1, cnt, n)
	}
	for i := 0; i < n; i++ {
		a := start + uint32(i)
		if !c11InT(a) {
			continue
		}
		class, _, gold, idx, err := q.cell(a)
		if err != nil || int(idx) >= len(gold) {
			continue
		}
		if buf[i] != gold[idx] {
			return fmt.Errorf("EaDump($%06X,$%06X) position %d (address $%06X) holds %02x but the mapper designates %s[$%X] = %02x", start, start+uint32(n)-1, i, a, buf[i], class, idx, gold[idx])
		}
	}
	return nil
}

// readOnly reads one address and, inside the console's layout, compares it with the designated cell.
func (q *c11Sys) readOnly(a uint32) error {
	var got byte
	pe := rig.Safe(func() error { got = q.s.Bus.EaRead(a); return nil })
	if !c11InT(a) {
		return nil
	}
	class, _, gold, i, err := q.cell(a)
	if err != nil || int(i) >= len(gold) {
		return nil
	}
	if pe != nil {
		return fmt.Errorf("EaRead($%06X) fails (%v) but the address is %s[$%X]", a, pe, class, i)
	}
	if got != gold[i] {
		return fmt.Errorf("EaRead($%06X) = %02x but the mapper designates %s[$%X] = %02x", a, got, class, i, gold[i])
	}
	return nil
}

// checkOut performs a write at an address outside T; array changes are detected by the caller's scan.
func (q *c11Sys) checkOut(a uint32) {
	_ = rig.Safe(func() error { q.s.Bus.EaWrite(a, ^rig.Mix(q.seed, a)|1); return nil })
}

// checkOutBacked: a lies outside the console's documented layout but the emulator accepted a write of v there.
func (q *c11Sys) checkOutBacked(a uint32, v byte) error {
	class, arr, _, i, err := q.cell(a)
	if err != nil || int(i) >= len(arr) {
		return nil // the mapper assigns no memory here (I/O, open bus): nothing to agree on
	}
	if arr[i] != v {
		return fmt.Errorf("the emulator accepts a write at $%06X without storing it in %s[$%X], the cell the mapper assigns to that address: it backs the address with something other than %s", a, class, i, class)
	}
	return nil
}

// c11Check is the single-address form (replay): full array scan after the access.
func c11Check(c c11Case) error {
	q := c11Fill(c.Seed)
	q2 := c11FillCopy(c.Seed ^ 0x5A5A5A5A)
	if err := q2.readOnly(c.Addr); err != nil {
		return fmt.Errorf("second System alive: %v", err)
	}
	if c11InT(c.Addr) {
		if err := q.check24(c.Addr>>16, uint16(c.Addr)); err != nil {
			return err
		}
	}
	if err := q.checkDump(c.Addr, 0x28); err != nil {
		return err
	}
	return q.checkOne(c.Addr)
}

func (q *c11Sys) checkOne(a uint32) error {
	if c11InT(a) {
		if err := q.checkIn(a); err != nil {
			return err
		}
		if cl, at := q.diffArrays(); at >= 0 {
			return fmt.Errorf("read+write of $%06X changed another byte: %s[$%X]", a, cl, at)
		}
		return nil
	}
	if rig.Safe(func() error { q.s.Bus.EaWrite(a, ^rig.Mix(q.seed, a)|1); return nil }) == nil {
		if err := q.checkOutBacked(a, ^rig.Mix(q.seed, a)|1); err != nil {
			q.restore()
			return err
		}
	}
	if cl, at := q.diffArrays(); at >= 0 {
		defer q.restore()
		class, _, _, i, err := q.cell(a)
		if err != nil || class != cl || int(i) != at {
			return fmt.Errorf("EaWrite($%06X) changed %s[$%X] but the mapper assigns this address %s[$%X] (err=%v): the emulator backs it with a different cell", a, cl, at, class, i, err)
		}
	}
	return nil
}

func init() {
	rig.RegisterReplay("C11", func(data []byte) error {
		var rf rig.ReplayFile
		if err := json.Unmarshal(data, &rf); err != nil {
			return err
		}
		var c c11Case
		if err := json.Unmarshal(rf.Case, &c); err != nil {
			return err
		}
		return c11Check(c)
	})
}

func TestC11(t *testing.T) {
	rig.Main(t, "C11", "complete enumeration of all 2^24 bus addresses on an emulator.System whose ROM/WRAM/SRAM arrays hold seed-defined contents: "+
		"inside the console's documented layout a read must return, and a write must change, exactly the array cell lorom.BusAddressToPak designates; "+
		"outside it a write that changes any array cell must hit the mapper's cell, and a write the emulator accepts at an address to which the mapper assigns a memory class must be stored in that cell; all three arrays are compared with golden copies after every bank; afterwards the System that was copied is read again through its own bus, and each System's CPU.Bus is compared with the System's bus; finally a device of the caller's own is attached over 4 KiB of one SRAM window (the other mirror and the neighbours keep answering from the arrays). "+
		"Distinct = (content seed, address); non-trivial = the address is ROM, SRAM or WRAM for the console or the bus accepted a write there.",
		func(r *rig.Run) {
			ev := r.Ev
			ev.Exhaustive = true
			seeds := []uint32{uint32(rig.Seed())*2654435761 + 1}
			if rig.Thorough() {
				seeds = append(seeds, seeds[0]^0xFFFFFFFF, 0, 0x55AA55AA)
			}
			for _, seed := range seeds {
				q := c11Fill(seed)
				// a second, differently filled System is used between the accesses: each System answers from its own arrays;
				// it was made by copying a third System and calling CreateEmulator on the copy 141 times (the bus was cleared after the first)
				q2 := c11FillCopy(seed ^ 0x5A5A5A5A)
				var inT, outAccepted int64
				failed := false
				for bank := uint32(0); bank < 256 && !failed; bank++ {
					for off := uint32(0); off < 0x10000; off++ {
						a := bank<<16 | off
						// the second System goes first in every other 16-byte block and in between elsewhere; its own
						// answers are checked too (a read through one System's bus never sees another System's arrays)
						if (off>>4&1 == 1 && off&0xF == 0) || off&0x7 == 5 {
							if err := q2.readOnly(a); err != nil {
								r.Violation("second-system", c11Case{seed, a}, fmt.Errorf("second System alive: %v", err))
								failed = true
								break
							}
						} else if off&0x3F == 0x22 {
							_ = rig.Safe(func() error { q2.s.Bus.EaWrite(a, q2.s.Bus.EaRead(a)); return nil })
						}
						if c11InT(a) {
							inT++
							if off&0xF >= 0xC || off&0xFF == 0x40 {
								if err := q.check24(bank, uint16(off)); err != nil {
									r.Violation("read24", c11Case{seed, a}, err)
									failed = true
									break
								}
							}
							if err := q.checkIn(a); err != nil {
								r.Violation("in", c11Case{seed, a}, err)
								failed = true
								break
							}
						} else {
							if rig.Safe(func() error { q.s.Bus.EaWrite(a, ^rig.Mix(seed, a)|1); return nil }) == nil {
								outAccepted++
								// the emulator answers here: if the mapper assigns a memory class to the address, the access must have
								// reached that very cell (anything else is backing it with a different class)
								if err := q.checkOutBacked(a, ^rig.Mix(seed, a)|1); err != nil {
									r.Violation("out", c11Case{seed, a}, err)
									failed = true
									break
								}
							}
						}
					}
					if failed {
						break
					}
					// block reads across the region boundaries of this bank agree with the designated cells
					for _, st := range []uint32{0x1FF3, 0x5FF8, 0x7FEC, 0xFFF5} {
						if err := q.checkDump(bank<<16|st, 0x28); err != nil {
							r.Violation("dump", c11Case{seed, bank<<16 | st}, err)
							failed = true
							break
						}
					}
					if failed {
						break
					}
					if cl, at := q.diffArrays(); at >= 0 {
						// locate the culprit address of this bank with the single-address check
						q.restore()
						found := false
						for off := uint32(0); off < 0x10000; off++ {
							a := bank<<16 | off
							if err := q.checkOne(a); err != nil {
								r.Violation("scan", c11Case{seed, a}, err)
								found = true
								break
							}
						}
						if !found {
							r.Violation("scan", c11Case{seed, bank << 16}, fmt.Errorf("accesses in bank $%02X changed %s[$%X] (no single address reproduces it)", bank, cl, at))
						}
						failed = true
					}
				}
				if !failed && q2.parent != nil {
					if cl, at := q2.parent.diffArrays(); at >= 0 {
						r.Violation("copied-system", c11Case{seed, 0}, fmt.Errorf("using a System made by struct copy + CreateEmulator changed %s[$%X] of the System it was copied from", cl, at))
					}
				}
				// after all that: the System the second one was copied from still answers from its own arrays, and the CPU of
				// each System (its exported Bus field is how it sees memory) reads what the System's bus reads
				for _, a := range []uint32{0x008000, 0x00FFC0, 0x3FFFFF, 0x808000, 0xBF8123, 0x7E0000, 0x7F1234, 0x7FFFFF, 0x001FFF, 0x800000, 0x3F1000, 0x700000, 0x717FFF, 0xF00123, 0xF17FFF} {
					if failed {
						break
					}
					if q2.parent != nil {
						if err := q2.parent.readOnly(a); err != nil {
							r.Violation("copied-system", c11Case{seed, a}, fmt.Errorf("the System that was copied, after the copy had been re-created and used: %v", err))
							failed = true
							break
						}
					}
					for k, sys := range []*c11Sys{q, q2} {
						if sys.s.CPU.Bus == nil {
							r.Violation("cpu-view", c11Case{seed, a}, fmt.Errorf("System %d: CPU.Bus is nil after CreateEmulator", k))
							failed = true
							break
						}
						var viaCPU, viaSys byte
						p1 := rig.Safe(func() error { viaCPU = sys.s.CPU.Bus.EaRead(a); return nil })
						p2 := rig.Safe(func() error { viaSys = sys.s.Bus.EaRead(a); return nil })
						if (p1 == nil) != (p2 == nil) || viaCPU != viaSys {
							r.Violation("cpu-view", c11Case{seed, a}, fmt.Errorf("System %d (0 = fresh, 1 = copied and re-created): its CPU reads %02x (%v) at $%06X, its bus %02x (%v): the CPU does not run on the System's own memory map", k, viaCPU, p1, a, viaSys, p2))
							failed = true
							break
						}
					}
				}
				// a cartridge device of the caller's own attached over part of one window (here 4 KiB of SRAM at $70:1000)
				// answers there - and only there: the other mirror of the same cells and the neighbouring addresses keep
				// answering from the System's arrays
				if !failed {
					private := make([]byte, 0x1000)
					for i := range private {
						private[i] = ^q.s.SRAM[0x1000+i]
					}
					if err := q.s.Bus.Attach(memory.NewRAM(private, 0x701000), "private", 0x701000, 0x701FFF); err != nil {
						r.Violation("own-device", c11Case{seed, 0x701000}, fmt.Errorf("Attach of a 4 KiB device at $70:1000-$70:1FFF on the System's bus: %v", err))
						failed = true
					}
					for _, a := range []uint32{0x701000, 0x701FFF, 0x700FFF, 0x702000, 0xF01000, 0xF01FFF, 0xF00FFF, 0x711000, 0xF11234, 0x7E1000, 0x001000} {
						if failed {
							break
						}
						if a>>12 == 0x701 {
							if got := q.s.Bus.EaRead(a); got != private[a&0xFFF] {
								r.Violation("own-device", c11Case{seed, a}, fmt.Errorf("EaRead($%06X) = %02x after a device was attached there, the device holds %02x", a, got, private[a&0xFFF]))
								failed = true
							}
							continue
						}
						if err := q.readOnly(a); err != nil {
							r.Violation("own-device", c11Case{seed, a}, fmt.Errorf("after a device of the caller's own was attached at $70:1000-$70:1FFF only: %v", err))
							failed = true
						}
					}
				}
				ev.Bulk(1<<24, inT+outAccepted)
				ev.ClassN("inside-console-layout", inT)
				ev.ClassN("outside-layout-write-accepted(io)", outAccepted)
				ev.Sample(c11Case{seed, 0xBF1FFF})
				ev.Sample(c11Case{seed, 0xF17FFF})
			}
			ev.Assumption("the console layout T (ROM $00-$3F,$80-$BF:8000-FFFF; SRAM $70-$71,$F0-$F1:0000-7FFF; WRAM $7E-$7F and :0000-1FFF of system banks) is taken from the property statement and the comments of CreateEmulator")
		})
}
