package props

import (
	"fmt"
	"testing"

	"pgregory.net/rapid"

	"verif/harness/rig"
	"verif/harness/wdc"
)

// C01 — both interpreters execute native-mode code exactly per the WDC model.

func c01Check(c progCase) error {
	pri, alt := cpus()
	cc := c
	return runLockstep(&cc, nil, []rig.CPU{pri, alt}, nil)
}

func init() {
	rig.RegisterReplay("C01", func(data []byte) error {
		c, err := decodeProg(data)
		if err != nil {
			return err
		}
		return c01Check(c)
	})
}

// classify one executed instruction for the non-triviality rule.
func c01InsClass(si stepInfo) []string {
	oi := wdc.Optab[si.Op]
	var cl []string
	switch oi.Md {
	case wdc.MImp, wdc.MAcc, wdc.MImmM, wdc.MImmX, wdc.MImm8, wdc.MImm16, wdc.MRel8, wdc.MRel16, wdc.MBlock:
	default:
		if oi.Mn != "jmp" && oi.Mn != "jsr" && oi.Mn != "jsl" {
			cl = append(cl, "memory-operand")
		}
	}
	switch oi.Mn {
	case "pha", "phx", "phy", "php", "phb", "phd", "phk", "pla", "plx", "ply", "plb", "pld", "pea", "pei", "per", "brk", "cop":
		cl = append(cl, "stack")
	case "rep", "sep", "plp", "rti", "xce":
		cl = append(cl, "width-switch")
	case "mvn", "mvp":
		cl = append(cl, "block-move")
	case "jmp", "jsr", "jsl", "rts", "rtl", "bra", "brl", "bcc", "bcs", "beq", "bne", "bmi", "bpl", "bvc", "bvs":
		cl = append(cl, "control-transfer")
	}
	switch si.Cls {
	case "", "none", "interior", "determined":
	default:
		cl = append(cl, "edge")
	}
	return cl
}

func TestC01(t *testing.T) {
	rig.Main(t, "C01", "rapid programs in native mode run in lockstep on cpu65c816, cpualt and an independent WDC 65C816 reference model over identical sparse "+
		"16 MiB images: edge-biased initial state, first opcode uniform over 0..255, later opcodes biased to width switches and block moves, operands / pointers / "+
		"index arithmetic solved just in time to land on page, bank and 24-bit edges; after every step A(16 bit),X,Y,S,D,DBR,K,P,E,PC,Stopped,WDM and every written "+
		"memory byte are compared; every other case starts from registers set through the exported fields only on CPU objects that ran all earlier cases, and in a quarter of the cases Flags() and the disassemblers are called between the steps.  Non-trivial = the program executed a memory operand, stack traffic, a width switch, a block move, a control transfer or an edge-class "+
		"effective address; distinct = hash(initial state, memory seed, patches).",
		func(r *rig.Run) {
			ev := r.Ev
			pri, alt := cpus()
			var cells [1024]int64
			var totalSteps, unspecV, unspecA, order int64
			maxSteps := rig.Pick(16, 64)
			r.Rapid("lockstep", rig.Pick(60000, 400000), func(t *rapid.T) {
				d := rig.RapidDrawer{T: t}
				syn := rig.NewSynth(d, nil)
				// the first opcode is drawn before the state so that the state can suit it
				c := progCase{MemSeed: d.U32("memseed"), Steps: 1 + d.Intn("steps", maxSteps)}
				op0 := byte(d.U32("op0-pre"))
				c.Init = rig.GenArch(d, op0, false)
				syn.ForceFirst(op0)
				c.Fork = d.Intn("fork", 100) == 0
				if c.Fork {
					ev.Class("run-on-CPUs-created-with-InitFrom")
				}
				if c.Steps > 1 && d.Intn("swap-bus", 50) == 0 {
					c.SwapAt = 1 + d.Intn("swap-at", c.Steps-1)
					ev.Class("CPU.Bus-assigned-in-the-middle-of-the-program")
				}
				var st lockstepStats
				err := rig.Safe(func() error {
					defer r.Deadman("lockstep", &c)()
					return runLockstep(&c, syn, []rig.CPU{pri, alt}, &st)
				})
				if err != nil {
					r.Fail(t, "lockstep", c, err)
				}
				nontriv := false
				h := rig.Hash64(fmt.Sprint(c.Init), c.MemSeed)
				for _, si := range st.Steps {
					i := int(si.Op) << 2
					if si.M8 {
						i |= 2
					}
					if si.X8 {
						i |= 1
					}
					cells[i]++
					cl := c01InsClass(si)
					if len(cl) > 0 {
						nontriv = true
					}
					for _, x := range cl {
						ev.Class("ins/" + x)
					}
					ev.Class("mode/" + wdc.ModeName[wdc.Optab[si.Op].Md] + "/" + si.Cls)
					h = rig.Hash64(h, si.Op, si.Cls)
				}
				for _, p := range c.Patches {
					h = h*1099511628211 ^ uint64(p.Addr)<<8 ^ uint64(p.Val)
				}
				totalSteps += int64(len(st.Steps))
				unspecV += int64(st.UnspecV)
				unspecA += int64(st.UnspecANZC)
				order += int64(st.Order)
				if st.EndedWhy != "" {
					ev.Class("ended/" + st.EndedWhy)
				}
				ev.Case(nontriv, h, func() interface{} { return c })
			})
			// complete 8-bit ALU grid: immediate and accumulator-mode instructions x all A x all operands x carry x decimal
			if rig.Shard() == 0 {
				n := c01AluSweep(r)
				ev.Bulk(n, n)
				ev.ClassN("alu8-grid", n)
			}
			// 16-bit ALU grid over a set of boundary values (both operands), carry and decimal
			if rig.Shard() == 1%rig.Shards() {
				n := c01Alu16Sweep(r)
				ev.Bulk(n, n)
				ev.ClassN("alu16-boundary-grid", n)
			}
			hit := 0
			for _, n := range cells {
				if n > 0 {
					hit++
				}
			}
			ev.Extra["opcode_x_M_x_X_cells"] = cells[:]
			ev.Extra["const_cells_layout"] = "index = opcode<<2 | m8<<1 | x8; value = executed instructions"
			ev.Extra["steps_executed_per_interpreter"] = totalSteps
			ev.Extra["steps_with_unspecified_V"] = unspecV
			ev.Extra["steps_with_unspecified_A_N_Z_C"] = unspecA
			ev.Extra["programs_ended_at_order_dependent_step"] = order
			if totalSteps > 20000 && hit < 970 {
				r.Infra("generator reached only %d of 1024 opcode x M x X cells", hit)
			}
			ev.Assumption("the reference model (harness/wdc, written from the WDC datasheet and 'Programming the 65816') is correct; V after decimal arithmetic, A/N/Z/C after decimal arithmetic on non-BCD operands and results that depend on the bus-cycle order inside one instruction are not judged")
		})
}

// c01AluSweep enumerates, for the 8-bit immediate / accumulator forms of the ALU instructions, every accumulator
// value x every operand value x carry in x decimal flag (decimal only for ADC/SBC and only on BCD operands in
// the quick tier: the model leaves non-BCD decimal results open), one instruction per case, on both interpreters.
func c01AluSweep(r *rig.Run) int64 {
	pri, alt := cpus()
	type aluOp struct {
		op      byte
		operand bool // has an immediate operand byte
		index   bool // operates on X/Y (flag x) rather than A (flag m)
	}
	ops := []aluOp{{0x69, true, false}, {0xE9, true, false}, {0x09, true, false}, {0x29, true, false}, {0x49, true, false}, {0xC9, true, false}, {0x89, true, false},
		{0xE0, true, true}, {0xC0, true, true}, {0x0A, false, false}, {0x2A, false, false}, {0x4A, false, false}, {0x6A, false, false}, {0x1A, false, false}, {0x3A, false, false}}
	var n int64
	bcd := func(v int) bool { return v&0xf <= 9 && v>>4 <= 9 }
	for _, o := range ops {
		arith := o.op == 0x69 || o.op == 0xE9
		for dflag := 0; dflag < 2; dflag++ {
			if dflag == 1 && !arith {
				continue
			}
			if !rig.Thorough() && !arith && o.op != 0xC9 && o.op != 0x89 {
				continue // the quick tier keeps the arithmetic, compare and bit-test grids
			}
			for a := 0; a < 256; a++ {
				dmax := 256
				if !o.operand {
					dmax = 1
				}
				for d := 0; d < dmax; d++ {
					_ = bcd // decimal arithmetic on non-BCD operands: A/N/Z/C are left open by the model, everything else is still judged
					for carry := 0; carry < 2; carry++ {
						p := byte(0x30) | byte(carry)
						if dflag == 1 {
							p |= wdc.FD
						}
						st := wdc.Arch{A: 0x5A00 | uint16(a), X: uint16(a), Y: uint16(a), S: 0x01F0, PC: 0x8000, K: 0x12, DBR: 0x34, P: p}
						c := progCase{Init: st, MemSeed: 7, Steps: 1, Patches: []rig.Patch{{Addr: 0x128000, Val: o.op}, {Addr: 0x128001, Val: byte(d)}}}
						n++
						if err := runLockstep(&c, nil, []rig.CPU{pri, alt}, nil); err != nil {
							r.Violation("alu8", c, err)
							return n
						}
					}
				}
			}
		}
	}
	return n
}

// c01Alu16Sweep: the 16-bit forms (m=0 / x=0) of the immediate and accumulator-mode ALU instructions over the square of a
// set of boundary values (carry chains between the bytes, sign and zero edges, BCD and non-BCD digits), carry in and,
// for ADC/SBC, the decimal flag; one instruction per case, on both interpreters.
func c01Alu16Sweep(r *rig.Run) int64 {
	pri, alt := cpus()
	vals := []uint16{0, 1, 2, 0x000F, 0x0010, 0x007F, 0x0080, 0x0081, 0x00FE, 0x00FF, 0x0100, 0x0101, 0x0199, 0x0999, 0x0A0A, 0x0FFF, 0x1000,
		0x1234, 0x4999, 0x5000, 0x5555, 0x7F7F, 0x7FFE, 0x7FFF, 0x8000, 0x8001, 0x8080, 0x8181, 0x9898, 0x9998, 0x9999, 0x999A, 0xAAAA, 0xF000,
		0xFEFF, 0xFF00, 0xFF01, 0xFF7F, 0xFF80, 0xFFFE, 0xFFFF, 0x0099, 0x9900, 0x00A0, 0xA000, 0x7F80, 0x807F, 0xEDCB}
	type aluOp struct {
		op      byte
		operand bool
		index   bool
	}
	ops := []aluOp{{0x69, true, false}, {0xE9, true, false}, {0x09, true, false}, {0x29, true, false}, {0x49, true, false}, {0xC9, true, false}, {0x89, true, false},
		{0xE0, true, true}, {0xC0, true, true}, {0x0A, false, false}, {0x2A, false, false}, {0x4A, false, false}, {0x6A, false, false}, {0x1A, false, false}, {0x3A, false, false}}
	var n int64
	for _, o := range ops {
		arith := o.op == 0x69 || o.op == 0xE9
		for dflag := 0; dflag < 2; dflag++ {
			if dflag == 1 && !arith {
				continue
			}
			for _, a := range vals {
				ds := vals
				if !o.operand {
					ds = vals[:1]
				}
				for _, d := range ds {
					for carry := 0; carry < 2; carry++ {
						p := byte(carry) // m = x = 0
						if dflag == 1 {
							p |= wdc.FD
						}
						st := wdc.Arch{A: a, X: a, Y: a ^ 0x0100, S: 0x01F0, PC: 0x8000, K: 0x12, DBR: 0x34, P: p}
						if o.op == 0xC0 {
							st.Y = a
						}
						c := progCase{Init: st, MemSeed: 9, Steps: 1, Patches: []rig.Patch{{Addr: 0x128000, Val: o.op}, {Addr: 0x128001, Val: byte(d)}, {Addr: 0x128002, Val: byte(d >> 8)}}}
						n++
						if err := runLockstep(&c, nil, []rig.CPU{pri, alt}, nil); err != nil {
							r.Violation("alu16", c, err)
							return n
						}
					}
				}
			}
		}
	}
	return n
}
