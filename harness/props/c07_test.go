package props

import (
	"bytes"
	"encoding/json"
	"fmt"
	"testing"

	"github.com/alttpo/snes/asm"
	"pgregory.net/rapid"

	"verif/harness/asmcat"
	"verif/harness/rig"
	"verif/harness/wdc"
)

// C07 — Emitter-accepted code is decoded by the CPU at the same instruction boundaries.

type c07Case struct {
	Ops  []asmcat.Op `json:"ops"` // straight-line history; the first op may be setbase
	A    uint16      `json:"a"`
	X    uint16      `json:"x"`
	Y    uint16      `json:"y"`
	S    uint16      `json:"s"`
	D    uint16      `json:"d"`
	DBR  byte        `json:"dbr"`
	Seed uint32      `json:"mem_seed"`
	// CloneFrom/CloneTo: ops[CloneFrom:CloneTo] are emitted into a Clone which is then appended back (0,0 = emit directly)
	CloneFrom int `json:"clone_from,omitempty"`
	CloneTo   int `json:"clone_to,omitempty"`
	// Probe > 0: before op Probe a dry-run clone (no buffer) is made, switched to the opposite widths and
	// discarded (measuring a code variant); the emitter in use keeps its own widths
	Probe int `json:"probe,omitempty"`
	// Short > 0: the target buffer is this many bytes smaller than the program; the sequence the assembler accepts
	// ends before the first call that no longer fits (that call must be refused), and that prefix is what the CPU runs
	Short int `json:"short,omitempty"`
	// Listing: the emitter also keeps a listing (must not influence addresses or widths)
	Listing bool `json:"listing,omitempty"`
}

type c07Result struct {
	Excluded string
	Steps    int
	WidthDep int // width-dependent immediates emitted after a width change
}

// errSkip marks a case outside the property's domain (self-modifying program ...).
func c07Check(c c07Case, res *c07Result) error {
	capacity := needOf(c.Ops) + 4
	if c.Short > 0 {
		capacity = needOf(c.Ops) - c.Short
		if capacity < 0 {
			capacity = 0
		}
	}
	p := &emPair{em: asm.NewEmitter(make([]byte, capacity), c.Listing), m: asmcat.NewModel(capacity, false, c.Listing)}
	var initFlags byte
	var endM16, endX16, ended bool
	emitted := false
	orig := p.em
	useClone := c.CloneTo > c.CloneFrom && c.CloneTo <= len(c.Ops)
	join := func() error {
		var pan interface{}
		func() {
			defer func() { pan = recover() }()
			orig.Append(p.em)
		}()
		if pan != nil {
			return fmt.Errorf("Append of the clone failed: %v", pan)
		}
		p.em, p.lenBias = orig, 0
		return nil
	}
	for i, o := range c.Ops {
		if useClone && i == c.CloneFrom {
			p.lenBias = orig.Len()
			p.em = orig.Clone(make([]byte, capacity))
		}
		if useClone && i == c.CloneTo {
			if err := join(); err != nil {
				return err
			}
		}
		if c.Short > 0 && o.Need() > 0 && p.m.Len()+o.Need() > capacity {
			// the first call that does not fit must be refused (step checks that, and that nothing else changed); the sequence
			// the assembler accepts ends before it, with the widths tracked at that point
			endM16, endX16, ended = p.em.IsM16bit(), p.em.IsX16bit(), true
			if err := p.step(i, o); err != nil {
				return err
			}
			break
		}
		if c.Probe > 0 && i == c.Probe {
			if byte(p.em.Flags()) != p.m.Flags {
				return fmt.Errorf("before op %d: the emitter tracks flags %02x, want %02x", i, byte(p.em.Flags()), p.m.Flags)
			}
			var pan interface{}
			func() {
				defer func() { pan = recover() }()
				probe := p.em.Clone(nil)
				if byte(probe.Flags())&0x30 == 0x30 {
					probe.REP(0x30)
					probe.LDA_imm16_w(0x1234)
				} else {
					probe.SEP(0x30)
					probe.LDA_imm8_b(0x12)
				}
			}()
			if pan != nil {
				return fmt.Errorf("before op %d: a dry-run clone refused a width switch followed by a matching immediate: %v", i, pan)
			}
			if byte(p.em.Flags()) != p.m.Flags {
				return fmt.Errorf("before op %d: a discarded dry-run clone switched widths and the emitter in use now tracks flags %02x instead of %02x", i, byte(p.em.Flags()), p.m.Flags)
			}
		}
		pre := p.m.Flags
		if err := p.step(i, o); err != nil {
			return err
		}
		if !emitted && len(p.m.Bytes) > 0 {
			emitted = true
			initFlags = pre // the widths the assembler was told to assume when the first instruction was emitted
		}
	}
	if useClone && p.em != orig {
		if err := join(); err != nil {
			return err
		}
	}
	if !bytes.Equal(p.em.Bytes(), p.m.Bytes) {
		return fmt.Errorf("emitted image differs from the model at byte %d", firstDiff(p.em.Bytes(), p.m.Bytes))
	}
	code := append([]byte(nil), p.em.Bytes()...)
	starts := p.m.InsStarts
	if len(starts) == 0 {
		return nil
	}
	base := p.m.Base
	end := base + uint32(len(code))
	if base>>16 != (end-1)>>16 {
		if res != nil {
			res.Excluded = "program does not fit into one bank (outside the property's domain)"
		}
		return nil
	}
	pri, alt := cpus()
	for _, cpu := range []rig.CPU{pri, alt} {
		mem := rig.NewMem(c.Seed)
		for i, b := range code {
			mem.Poke(base+uint32(i), b)
		}
		cpu.SetMem(mem)
		st := wdc.Arch{A: c.A, X: c.X, Y: c.Y, S: c.S, D: c.D, DBR: c.DBR, K: byte(base >> 16), PC: uint16(base), P: initFlags & 0x30}
		cpu.Load(st)
		mem.DoLog = true
		idx := 0
		var last uint32 = 0xffffffff
		for steps := 0; steps < 70000+4*len(starts); steps++ {
			r := cpu.Raw()
			at := uint32(r.RK)<<16 | uint32(r.PC)
			if at == last && idx > 0 && wdc.Optab[mem.Peek(at)].Md == wdc.MBlock {
				// a block move repeats at the same address: collapsed
			} else {
				if idx == len(starts) {
					// the program counter wraps inside the program bank when the program ends at $xx:FFFF
					if at != base&0xff0000|end&0xffff {
						return fmt.Errorf("%s: after the last instruction the CPU is at $%06x, the program ends at $%06x", cpu.Name(), at, end)
					}
					break
				}
				if at != starts[idx] {
					return fmt.Errorf("%s fetches an opcode at $%06x but the assembler's instruction #%d (%v) starts at $%06x (previous instruction at $%06x)", cpu.Name(), at, idx, c07OpAt(c.Ops, idx), starts[idx], last)
				}
				idx++
			}
			last = at
			mem.Log = mem.Log[:0]
			_, stopped, pan := cpu.Step()
			if pan != nil {
				return fmt.Errorf("%s panicked at $%06x: %v", cpu.Name(), at, pan)
			}
			if f := mem.BusFault(); f != "" {
				return fmt.Errorf("%s executing the instruction at $%06x %s: with more than one device on the bus it would decode other bytes than the assembler emitted", cpu.Name(), at, f)
			}
			for _, ac := range mem.Log {
				if ac.Write && ac.Addr >= base && ac.Addr < end {
					if res != nil {
						res.Excluded = "program overwrote its own bytes"
					}
					return nil
				}
			}
			if res != nil && cpu == rig.CPU(pri) {
				res.Steps++
			}
			if stopped {
				if idx != len(starts) {
					return fmt.Errorf("%s stopped after instruction #%d of %d", cpu.Name(), idx, len(starts))
				}
				break
			}
			if steps == 70000+4*len(starts)-1 {
				if res != nil {
					res.Excluded = "step budget exhausted (long block move)"
				}
				return nil
			}
		}
		r := cpu.Raw()
		if !ended {
			endM16, endX16 = p.em.IsM16bit(), p.em.IsX16bit()
		}
		wantM, wantX := b2u(!endM16), b2u(!endX16)
		if r.M != wantM || r.X != wantX {
			return fmt.Errorf("%s ends with m=%d x=%d but the assembler tracks m=%d x=%d (8-bit = 1)", cpu.Name(), r.M, r.X, wantM, wantX)
		}
	}
	return nil
}

func b2u(b bool) byte {
	if b {
		return 1
	}
	return 0
}

func c07FlagsBefore(ops []asmcat.Op) byte {
	m := asmcat.NewModel(1<<30, false, false)
	for _, o := range ops {
		m.Apply(o)
	}
	return m.Flags
}

func c07OpAt(ops []asmcat.Op, idx int) asmcat.Op {
	m := asmcat.NewModel(1<<30, false, false)
	for _, o := range ops {
		n := len(m.InsStarts)
		m.Apply(o)
		if len(m.InsStarts) > n && n == idx {
			return o
		}
	}
	return asmcat.Op{}
}

// c07Sanitize makes a drawn history fit the property's domain: assumptions made after the first
// instruction must be truthful about m/x (they may only restate what the tracker already holds),
// STP only last, MVN's destination bank is not the program's bank.
func c07Sanitize(ops []asmcat.Op, progBank byte) []asmcat.Op {
	m := asmcat.NewModel(1<<30, false, false)
	var out []asmcat.Op
	for i, o := range ops {
		switch {
		case o.Kind == "assume_sep" && len(m.Bytes) > 0:
			o.V &^= uint32(0x30 &^ m.Flags)
		case o.Kind == "assume_rep" && len(m.Bytes) > 0:
			o.V &^= uint32(0x30 & m.Flags)
		case o.Kind == "ins" && o.Method == "STP" && i != len(ops)-1:
			o.Method = "NOP"
		case o.Kind == "ins" && o.Method == "MVN" && byte(o.V) == progBank:
			o.V ^= 0x01
		}
		if ok, _ := m.Apply(o); ok || o.Kind == "ins" {
			out = append(out, o)
		}
	}
	// keep the program inside its bank (sanitising may have changed its size)
	if bi := asmcat.BaseIndex(out); bi >= 0 && int(out[bi].V&0xffff)+len(m.Bytes) > 0x10000 {
		out[bi].V = out[bi].V&0xff0000 | uint32(0x10000-len(m.Bytes))&0xffff
	}
	return out
}

func init() {
	rig.RegisterReplay("C07", func(data []byte) error {
		var rf rig.ReplayFile
		if err := json.Unmarshal(data, &rf); err != nil {
			return err
		}
		if rf.Kind == "guard" {
			var g c07Guard
			if err := json.Unmarshal(rf.Case, &g); err != nil {
				return err
			}
			return c07GuardCheck(g)
		}
		var c c07Case
		if err := json.Unmarshal(rf.Case, &c); err != nil {
			return err
		}
		return c07Check(c, nil)
	})
}

// converse: an immediate method is refused exactly when its operand size disagrees with the tracked width
type c07Guard struct {
	Method string `json:"method"`
	Flags  byte   `json:"flags"`
}

func c07GuardCheck(g c07Guard) error {
	m, ok := asmcat.Lookup(g.Method)
	if !ok {
		return fmt.Errorf("unknown method")
	}
	p := &emPair{em: asm.NewEmitter(make([]byte, 16), false), m: asmcat.NewModel(16, false, false)}
	for i, o := range []asmcat.Op{{Kind: "ins", Method: "NOP"}, {Kind: "assume_sep", V: uint32(g.Flags)}, {Kind: "ins", Method: m.Name, V: 0x1234}} {
		if err := p.step(i, o); err != nil {
			return err
		}
	}
	return nil
}

func TestC07(t *testing.T) {
	rig.Main(t, "C07", "rapid straight-line emitter histories (all catalogued methods except taken transfers, PLP and RTI; conditional branches with displacement 0; REP/SEP with arbitrary masks; "+
		"truthful AssumeREP/AssumeSEP interleaved; any initial assumption; optional base; calls under the wrong width must be refused) emitted, loaded at the base address and executed on both "+
		"interpreters starting with the assumed widths: the opcode-fetch addresses must equal the Emitter.PC() values seen before each emitting call and the final m/x must equal the tracker. "+
		"Plus the complete grid immediate-method x 256 tracker states for the refusal rule.  Non-trivial = the program has a width-dependent immediate after a REP/SEP/Assume; distinct = hash(case).",
		func(r *rig.Run) {
			ev := r.Ev
			if rig.Shard() == 0 {
				var n int64
				for _, m := range asmcat.Catalogue {
					if m.Guard == asmcat.NoGuard {
						continue
					}
					for f := 0; f < 256; f++ {
						g := c07Guard{m.Name, byte(f)}
						r.CheckSweep("guard", g, func() error { return c07GuardCheck(g) })
						n++
					}
				}
				ev.Bulk(n, n)
				ev.ClassN("guard-grid(method x tracker state)", n)
			}
			var steps, excluded int64
			r.Rapid("rapid", rig.Pick(30000, 120000), func(t *rapid.T) {
				ops := asmcat.GenHistory(t, asmcat.GenOpts{MaxOps: rig.Pick(30, 100), SetBase: true, Assume: true, BadGuard: true, Straight: true})
				bank := byte(0)
				if bi := asmcat.BaseIndex(ops); bi >= 0 {
					bank = byte(ops[bi].V >> 16)
				}
				c := c07Case{Ops: c07Sanitize(ops, bank), A: uint16(rapid.IntRange(0, 3).Draw(t, "a")), X: rapid.Uint16().Draw(t, "x"), Y: rapid.Uint16().Draw(t, "y"),
					S: rapid.SampledFrom([]uint16{0x01ff, 0x1fff, 0x0100}).Draw(t, "s"), D: rapid.SampledFrom([]uint16{0, 0x0100, 0x1234}).Draw(t, "d"),
					DBR: rapid.SampledFrom([]byte{0x7f, 0x02, 0x40}).Draw(t, "dbr"), Seed: rapid.Uint32().Draw(t, "memseed")}
				if len(c.Ops) > 1 && rapid.IntRange(0, 2).Draw(t, "via-clone") == 0 {
					c.CloneFrom = rapid.IntRange(0, len(c.Ops)-1).Draw(t, "clone-from")
					c.CloneTo = rapid.IntRange(c.CloneFrom+1, len(c.Ops)).Draw(t, "clone-to")
					if bi := asmcat.BaseIndex(c.Ops); bi >= 0 && c.CloneFrom <= bi && rapid.Bool().Draw(t, "base-on-original") {
						c.CloneFrom = bi + 1 // the base is set on the original (otherwise in the clone: Append hands it over)
					}
					if c.CloneTo <= c.CloneFrom {
						c.CloneFrom, c.CloneTo = 0, 0
					}
				}
				c.Listing = rapid.Bool().Draw(t, "listing")
				if rapid.IntRange(0, 2).Draw(t, "raw-nops") == 0 {
					// instructions emitted as raw bytes with EmitBytes (NOPs): every byte is an instruction start
					// (placed after the first instruction, so that the width assumptions stated before it stay before it)
					first := len(c.Ops) + 1
					pm := asmcat.NewModel(1<<30, false, false)
					for i, o := range c.Ops {
						if pm.Apply(o); len(pm.Bytes) > 0 {
							first = i + 1
							break
						}
					}
					for k := rapid.IntRange(1, 2).Draw(t, "nop-blocks"); k > 0 && first <= len(c.Ops); k-- {
						at := rapid.IntRange(first, len(c.Ops)).Draw(t, "nops-at")
						n := rapid.SampledFrom([]uint32{1, 2, 15, 16, 17, 32, 33, 48}).Draw(t, "nops-len")
						ops := append([]asmcat.Op(nil), c.Ops[:at]...)
						ops = append(ops, asmcat.Op{Kind: "data", V: n, Nops: true})
						c.Ops = append(ops, c.Ops[at:]...)
					}
					ev.Class("instructions-emitted-as-raw-bytes(EmitBytes-of-NOPs)")
				}
				if rapid.IntRange(0, 7).Draw(t, "short-buffer") == 0 {
					c.Short = rapid.IntRange(1, 6).Draw(t, "short-by")
					c.CloneFrom, c.CloneTo = 0, 0
					ev.Class("target-buffer-smaller-than-the-program(accepted-prefix-runs)")
				}
				if len(c.Ops) > 1 && rapid.IntRange(0, 3).Draw(t, "probe-clone") == 0 {
					c.Probe = rapid.IntRange(1, len(c.Ops)-1).Draw(t, "probe-at")
					ev.Class("dry-run-clone-switched-widths-and-was-discarded")
				}
				var res c07Result
				r.Check(t, "rapid", c, func() error { return c07Check(c, &res) })
				// non-triviality: width-dependent immediate after a width change
				m := asmcat.NewModel(1<<30, false, false)
				changed, nt, bad := false, false, false
				for _, o := range c.Ops {
					if o.Kind == "assume_sep" || o.Kind == "assume_rep" || (o.Kind == "ins" && (o.Method == "REP" || o.Method == "SEP")) {
						if o.V&0x30 != 0 {
							changed = true
						}
					}
					if o.Kind == "ins" {
						if mm, _ := asmcat.Lookup(o.Method); mm.Guard != asmcat.NoGuard {
							if ok, _ := m.Apply(o); !ok {
								bad = true
							} else if changed {
								nt = true
							}
							continue
						}
					}
					m.Apply(o)
				}
				if res.Excluded != "" {
					excluded++
					ev.Exclude(res.Excluded)
					nt = false
				}
				if bad {
					ev.Class("history-with-refused-immediate")
				}
				if c.CloneTo > c.CloneFrom {
					ev.Class("part-of-the-program-emitted-through-Clone+Append")
				}
				steps += int64(res.Steps)
				raw, _ := json.Marshal(c)
				ev.Case(nt, rig.Hash64(raw), func() interface{} { return c })
			})
			ev.Extra["cpu_steps_executed"] = steps
			ev.Assumption("AssumeREP/AssumeSEP calls made after the first instruction are restricted to truthful ones (they may not change the tracked m/x), since the statement presupposes that the CPU runs with the widths the assembler was told to assume")
		})
}
