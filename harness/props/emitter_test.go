package props

import (
	"bytes"
	"fmt"

	"github.com/alttpo/snes/asm"

	"verif/harness/asmcat"
)

// Shared by the emitter properties (C06, C07, C15, C16, C19): run a history on a real emitter
// and on the model in lockstep.

type emPair struct {
	em *asm.Emitter
	m  *asmcat.Model
	// lenBias is added to em.Len() when em is a clone that holds only the bytes emitted since Clone
	lenBias int
	// target is em's target buffer when the property needs it (data emitted from the buffer itself)
	target []byte
}

func needOf(ops []asmcat.Op) int {
	n := 0
	for _, o := range ops {
		n += o.Need()
	}
	return n
}

// observables that must never change on a refused call
type emSnap struct {
	bytes  []byte
	n      int
	pc     uint32
	flags  byte
	labels map[string]uint32
}

var allLabelNames = []string{"l0", "loop", "done", "next", "L4", "skip_5", "a", "zz_end", "lbl", "", ".loc", "twelve_chars", "thirteen_char", "a_label_name_wider_than_any_listing_column", "a:", "exit:", "l0 "}

func snapOf(em *asm.Emitter) emSnap {
	s := emSnap{bytes: append([]byte(nil), em.Bytes()...), n: em.Len(), pc: em.PC(), flags: byte(em.Flags()), labels: map[string]uint32{}}
	for _, n := range allLabelNames {
		if v, ok := em.GetLabel(n); ok {
			s.labels[n] = v
		}
	}
	return s
}

func (a emSnap) diff(b emSnap, withFlags bool) string {
	switch {
	case !bytes.Equal(a.bytes, b.bytes):
		return fmt.Sprintf("bytes changed (%d -> %d bytes, first difference at %d)", len(a.bytes), len(b.bytes), firstDiff(a.bytes, b.bytes))
	case a.n != b.n:
		return fmt.Sprintf("Len %d -> %d", a.n, b.n)
	case a.pc != b.pc:
		return fmt.Sprintf("PC $%06x -> $%06x", a.pc, b.pc)
	case withFlags && a.flags != b.flags:
		return fmt.Sprintf("tracked flags %02x -> %02x", a.flags, b.flags)
	case len(a.labels) != len(b.labels):
		return fmt.Sprintf("labels %v -> %v", a.labels, b.labels)
	}
	for k, v := range a.labels {
		if b.labels[k] != v {
			return fmt.Sprintf("label %s $%06x -> $%06x", k, v, b.labels[k])
		}
	}
	return ""
}

// step applies one op to the emitter and the model and checks the immediate observables.
func (p *emPair) step(i int, o asmcat.Op) error {
	before := snapOf(p.em)
	accepted, reason := p.m.Apply(o)
	ret, pan := asmcat.ApplyRealIn(p.em, o, p.target)
	if !accepted {
		if pan == nil {
			return fmt.Errorf("op %d %v must be refused (%s) but was accepted", i, o, reason)
		}
		// a refused REP/SEP may already have updated the tracker (documented order: tracker first); follow it
		withFlags := !(o.Kind == "ins" && (o.Method == "REP" || o.Method == "SEP"))
		after := snapOf(p.em)
		if d := before.diff(after, withFlags); d != "" {
			return fmt.Errorf("op %d %v was refused (%s: %v) but changed the emitter: %s", i, o, reason, pan, d)
		}
		p.m.Flags = byte(p.em.Flags())
		return nil
	}
	if pan != nil {
		return fmt.Errorf("op %d %v panicked although it is legal and fits: %v", i, o, pan)
	}
	if o.Kind == "label" && ret != p.m.Labels[o.Label] {
		return fmt.Errorf("op %d Label(%q) returned $%06x, the current address is $%06x", i, o.Label, ret, p.m.Labels[o.Label])
	}
	if p.em.PC() != p.m.Addr {
		return fmt.Errorf("after op %d %v: PC() = $%06x, want $%06x", i, o, p.em.PC(), p.m.Addr)
	}
	if !p.m.NilTarget && p.em.Len()+p.lenBias != p.m.Len() || p.m.NilTarget && p.em.Len() != 0 {
		return fmt.Errorf("after op %d %v: Len() = %d, want %d", i, o, p.em.Len()+p.lenBias, p.m.Len())
	}
	if byte(p.em.Flags()) != p.m.Flags {
		return fmt.Errorf("after op %d %v: tracked flags %02x, want %02x", i, o, byte(p.em.Flags()), p.m.Flags)
	}
	if !p.m.NilTarget {
		got := p.em.Bytes()
		// only the tail is compared here (cheap); whole-image comparisons happen at the checkpoints of each property
		n := o.Need()
		if len(got)+p.lenBias != len(p.m.Bytes) || !bytes.Equal(got[len(got)-n:], p.m.Bytes[len(p.m.Bytes)-n:]) {
			return fmt.Errorf("after op %d %v: emitted bytes [% x], want [% x]", i, o, got[max0(len(got)-n):], p.m.Bytes[len(p.m.Bytes)-n:])
		}
	}
	return nil
}

func max0(v int) int {
	if v < 0 {
		return 0
	}
	return v
}

func (p *emPair) checkLabels() error {
	for _, n := range allLabelNames {
		got, ok := p.em.GetLabel(n)
		want, wok := p.m.Labels[n]
		if ok != wok || got != want {
			return fmt.Errorf("GetLabel(%q) = ($%06x, %v), want ($%06x, %v)", n, got, ok, want, wok)
		}
	}
	return nil
}
