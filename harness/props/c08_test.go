package props

import (
	"encoding/json"
	"fmt"
	"testing"

	"pgregory.net/rapid"

	"verif/harness/rig"
	"verif/harness/wdc"
)

// C08 — the CPU stays inside the 24-bit address space and never crashes on mapped memory.

// c08Run executes the step actions of the case on each interpreter separately (own memory) and
// demands: no panic, no bus address >= 2^24.  With a synth, instructions are placed just in time
// from the first interpreter's state.
func c08Run(c *c02Case, synth *rig.Synth, steps int, stats *c02Stats) error {
	pri, alt := cpus()
	impls := []rig.CPU{pri, alt}
	mems := []*rig.Mem{rig.NewMem(c.MemSeed), rig.NewMem(c.MemSeed)}
	for i, cpu := range impls {
		for _, p := range c.Patches {
			mems[i].Poke(p.Addr, p.Val)
		}
		cpu.SetMem(mems[i])
		cpu.LoadRaw(c.Init)
	}
	mems[0].DoLog = true
	if synth != nil {
		synth.Mem = mems[0]
	} else {
		steps = len(c.Actions)
	}
	alive := []bool{true, true}
	for k := 0; k < steps; k++ {
		pre := pri.Arch()
		if synth != nil {
			c.Actions = append(c.Actions, "step")
			n0 := len(synth.Patches)
			synth.Instr(pre)
			for _, p := range synth.Patches[n0:] {
				c.Patches = append(c.Patches, p)
				mems[1].Poke(p.Addr, p.Val)
			}
		}
		what := insString(mems[0], pre)
		if stats != nil {
			cls := ""
			if synth != nil {
				cls = synth.LastCls
			}
			stats.Steps = append(stats.Steps, stepInfo{mems[0].Peek(uint32(pre.K)<<16 | uint32(pre.PC)), pre.P&wdc.FM != 0, pre.P&wdc.FX != 0, cls})
			if pre.E {
				stats.E1Steps++
			}
		}
		mems[0].Log = mems[0].Log[:0]
		for i, cpu := range impls {
			if !alive[i] {
				continue
			}
			st := cpu.Arch()
			if i == 1 && len(rig.DiffArch(st, pre)) > 0 {
				// the interpreters diverged (C02's business): the synthesised program no longer describes this one
				alive[i] = false
				continue
			}
			_, _, p := cpu.Step()
			if p != nil {
				return fmt.Errorf("step %d %s: %s crashed: %v (state before %+v)", k, what, cpu.Name(), p, st)
			}
			if f := mems[i].BusFault(); f != "" {
				return fmt.Errorf("step %d %s: %s %s (state before %+v)", k, what, cpu.Name(), f, st)
			}
		}
		if synth != nil {
			synth.NoteAccess(mems[0].Log)
		}
		if pri.Raw().Stopped {
			break
		}
	}
	return nil
}

// c08StackCell: one step whose stack traffic happens at the very bottom or top of the stack's address range - an
// opcode that pushes or pulls, or the entry into an interrupt handler (Int 1 = IRQ, 2 = NMI), with the stack pointer at
// 0-4 or $FFFC-$FFFF (and the page edges of emulation mode).
type c08StackCell struct {
	Impl string `json:"impl"`
	E    bool   `json:"e"`
	P    byte   `json:"p"`
	SP   uint16 `json:"sp"`
	Op   byte   `json:"op"`
	Int  byte   `json:"int,omitempty"`
}

func c08StackCheck(c c08StackCell) error {
	pri, alt := cpus()
	var cpu rig.CPU = pri
	if c.Impl == "cpualt" {
		cpu = alt
	}
	mem := rig.NewMem(0xC08)
	cpu.SetMem(mem)
	a := wdc.Arch{A: 0x1234, X: 0x0011, Y: 0x0022, S: c.SP, D: 0x0000, PC: 0x1000, DBR: 0x7E, K: 0x01, P: c.P, E: c.E}
	cpu.LoadRaw(rig.ArchToRaw(a))
	for _, base := range []uint32{0x010000, 0x000000} {
		mem.Poke(base|0x1000, c.Op)
		mem.Poke(base|0x1001, 0x34)
		mem.Poke(base|0x1002, 0x12)
		mem.Poke(base|0x1003, 0x7F)
		mem.Poke(base|0x2000, 0xEA)
	}
	for _, vec := range []uint32{0xFFE4, 0xFFE6, 0xFFEE, 0xFFEA, 0xFFF4, 0xFFFE, 0xFFFA} {
		mem.Poke(vec, 0x00)
		mem.Poke(vec+1, 0x20)
	}
	if c.Int == 1 {
		cpu.TriggerIRQ()
	} else if c.Int == 2 {
		cpu.SetInterrupt(interruptNMI)
	}
	if _, _, p := cpu.Step(); p != nil {
		return fmt.Errorf("%s opcode %02x (E=%v P=%02x, interrupt request %d) with S=$%04X: Step panicked: %v", c.Impl, c.Op, c.E, c.P, c.Int, c.SP, p)
	}
	if f := mem.BusFault(); f != "" {
		return fmt.Errorf("%s opcode %02x (E=%v P=%02x, interrupt request %d) with S=$%04X %s", c.Impl, c.Op, c.E, c.P, c.Int, c.SP, f)
	}
	return nil
}

func c08Check(data []byte) error {
	var rf rig.ReplayFile
	if err := json.Unmarshal(data, &rf); err != nil {
		return err
	}
	if rf.Kind == "stack-edge" {
		var c c08StackCell
		if err := json.Unmarshal(rf.Case, &c); err != nil {
			return err
		}
		return c08StackCheck(c)
	}
	var probe map[string]json.RawMessage
	_ = json.Unmarshal(rf.Case, &probe)
	if _, isProg := probe["steps"]; isProg {
		var pc progCase
		if err := json.Unmarshal(rf.Case, &pc); err != nil {
			return err
		}
		pri, alt := cpus()
		return runLockstep(&pc, nil, []rig.CPU{pri, alt}, nil)
	}
	var c c02Case
	if err := json.Unmarshal(rf.Case, &c); err != nil {
		return err
	}
	return c08Run(&c, nil, 0, nil)
}

func init() { rig.RegisterReplay("C08", c08Check) }

func c08Edge(cls string) bool {
	switch cls {
	case "overflow24", "straddle-top", "top", "top-bank-carry", "top-bank-end", "top-interior", "top-page-end", "top-bank-start":
		return true
	}
	return false
}

func TestC08(t *testing.T) {
	rig.Main(t, "C08", "rapid programs pinned to the top of the address space (DBR=$FF half of the time, long operands and [dp] pointers within $FFFF of $FFFFFF, "+
		"index sums solved to carry out of 24 bits, 16-bit data starting at $FFFFFF) on a fully mapped recording memory, both interpreters: phase native = lockstep with the "+
		"WDC model (access must land at EA mod 2^24), phase any-mode (E=1 in half of the cases) = no panic and no bus address >= 2^24; plus every pushing/pulling opcode and both interrupt entries with the stack pointer at the ends of its range.  Non-trivial = a step whose solved effective "+
		"address overflows 24 bits or whose datum straddles $FFFFFF/$000000; distinct = hash(state, seed, patches).",
		func(r *rig.Run) {
			ev := r.Ev
			pri, alt := cpus()
			var edgeSteps, steps, e1 int64
			// stack traffic at the ends of the stack pointer's range: every pushing/pulling opcode and both interrupt entries
			if rig.Shard() == 0 {
				var n int64
				ok := true
				stackOps := []byte{0x00, 0x02, 0x08, 0x0B, 0x20, 0x22, 0x28, 0x2B, 0x40, 0x48, 0x4B, 0x5A, 0x60, 0x62, 0x68, 0x6B, 0x7A, 0x8B, 0xAB, 0xD4, 0xDA, 0xF4, 0xFA, 0xFC, 0xEA}
				for _, impl := range []string{"cpu65c816", "cpualt"} {
					for _, mode := range []struct {
						e bool
						p byte
					}{{false, 0x00}, {false, 0x30}, {false, 0x04}, {true, 0x30}} {
						for _, sp := range []uint16{0, 1, 2, 3, 4, 0xFF, 0x100, 0x101, 0x102, 0x1FE, 0x1FF, 0x200, 0xFFFC, 0xFFFD, 0xFFFE, 0xFFFF} {
							for _, op := range stackOps {
								for _, in := range []byte{0, 1, 2} {
									if in != 0 && op != 0xEA {
										continue
									}
									c := c08StackCell{Impl: impl, E: mode.e, P: mode.p, SP: sp, Op: op, Int: in}
									n++
									if ok && !r.CheckSweep("stack-edge", c, func() error { return c08StackCheck(c) }) {
										ok = false
									}
								}
							}
						}
					}
				}
				ev.Bulk(n, n)
				ev.ClassN("stack-traffic-at-the-ends-of-the-stack-pointer's-range", n)
			}
			r.Rapid("native-lockstep", rig.Pick(50000, 250000), func(t *rapid.T) {
				d := rig.RapidDrawer{T: t}
				syn := rig.NewSynth(d, nil)
				syn.Top = true
				c := progCase{MemSeed: d.U32("memseed"), Steps: 1 + d.Intn("steps", 4), Top: true}
				op0 := byte(d.U32("op0-pre"))
				c.Init = rig.GenArch(d, op0, true)
				syn.ForceFirst(op0)
				var st lockstepStats
				err := func() error {
					defer r.Deadman("native", &c)()
					return runLockstep(&c, syn, []rig.CPU{pri, alt}, &st)
				}()
				if err != nil {
					r.Fail(t, "native", c, err)
				}
				nt := false
				h := rig.Hash64(fmt.Sprint(c.Init), c.MemSeed)
				for _, si := range st.Steps {
					if c08Edge(si.Cls) {
						nt = true
						edgeSteps++
						ev.Class("native/" + wdc.ModeName[wdc.Optab[si.Op].Md] + "/" + si.Cls)
					}
					h = rig.Hash64(h, si.Op, si.Cls)
				}
				for _, p := range c.Patches {
					h = h*1099511628211 ^ uint64(p.Addr)<<8 ^ uint64(p.Val)
				}
				steps += int64(len(st.Steps))
				ev.Case(nt, h, func() interface{} { return c })
			})
			r.Rapid("any-mode", rig.Pick(50000, 250000), func(t *rapid.T) {
				d := rig.RapidDrawer{T: t}
				syn := rig.NewSynth(d, nil)
				syn.Top = true
				op0 := byte(d.U32("op0-pre"))
				syn.ForceFirst(op0)
				c := c02Case{MemSeed: d.U32("memseed")}
				a := rig.GenArch(d, op0, true)
				a.E = d.Intn("emu", 2) == 0
				c.Init = rig.ArchToRaw(a)
				var st c02Stats
				err := func() error {
					defer r.Deadman("anymode", &c)()
					return c08Run(&c, syn, 1+d.Intn("steps", 4), &st)
				}()
				if err != nil {
					r.Fail(t, "anymode", c, err)
				}
				nt := false
				h := rig.Hash64(fmt.Sprint(c.Init), c.MemSeed, "any")
				for _, si := range st.Steps {
					if c08Edge(si.Cls) {
						nt = true
						edgeSteps++
						md := "native"
						if a.E {
							md = "emulation"
						}
						ev.Class(md + "/" + wdc.ModeName[wdc.Optab[si.Op].Md] + "/" + si.Cls)
					}
					h = rig.Hash64(h, si.Op, si.Cls)
				}
				for _, p := range c.Patches {
					h = h*1099511628211 ^ uint64(p.Addr)<<8 ^ uint64(p.Val)
				}
				steps += int64(len(st.Steps))
				e1 += int64(st.E1Steps)
				ev.Case(nt, h, func() interface{} { return c })
			})
			ev.Extra["steps_executed"] = steps
			ev.Extra["steps_at_the_top_of_memory"] = edgeSteps
			ev.Extra["steps_in_emulation_mode"] = e1
			if steps > 20000 && (edgeSteps < steps/20 || e1 == 0) {
				r.Infra("generator reached the top of memory in only %d of %d steps (E=1 steps %d)", edgeSteps, steps, e1)
			}
		})
}
