package props

import (
	"encoding/json"
	"fmt"
	"testing"

	"pgregory.net/rapid"

	"verif/harness/rig"
	"verif/harness/wdc"
)

// C08 — the CPU stays inside the 24-bit address space and never crashes on mapped memory.

// c08Run executes the step actions of the case on each interpreter separately (own memory) and
// demands: no panic, no bus address >= 2^24.  With a synth, instructions are placed just in time
// from the first interpreter's state.
func c08Run(c *c02Case, synth *rig.Synth, steps int, stats *c02Stats) error {
	pri, alt := cpus()
	impls := []rig.CPU{pri, alt}
	mems := []*rig.Mem{rig.NewMem(c.MemSeed), rig.NewMem(c.MemSeed)}
	for i, cpu := range impls {
		for _, p := range c.Patches {
			mems[i].Poke(p.Addr, p.Val)
		}
		cpu.SetMem(mems[i])
		cpu.LoadRaw(c.Init)
	}
	mems[0].DoLog = true
	if synth != nil {
		synth.Mem = mems[0]
	} else {
		steps = len(c.Actions)
	}
	alive := []bool{true, true}
	for k := 0; k < steps; k++ {
		pre := pri.Arch()
		if synth != nil {
			c.Actions = append(c.Actions, "step")
			n0 := len(synth.Patches)
			synth.Instr(pre)
			for _, p := range synth.Patches[n0:] {
				c.Patches = append(c.Patches, p)
				mems[1].Poke(p.Addr, p.Val)
			}
		}
		what := insString(mems[0], pre)
		if stats != nil {
			cls := ""
			if synth != nil {
				cls = synth.LastCls
			}
			stats.Steps = append(stats.Steps, stepInfo{mems[0].Peek(uint32(pre.K)<<16 | uint32(pre.PC)), pre.P&wdc.FM != 0, pre.P&wdc.FX != 0, cls})
			if pre.E {
				stats.E1Steps++
			}
		}
		mems[0].Log = mems[0].Log[:0]
		for i, cpu := range impls {
			if !alive[i] {
				continue
			}
			st := cpu.Arch()
			if i == 1 && len(rig.DiffArch(st, pre)) > 0 {
				// the interpreters diverged (C02's business): the synthesised program no longer describes this one
				alive[i] = false
				continue
			}
			_, _, p := cpu.Step()
			if p != nil {
				return fmt.Errorf("step %d %s: %s crashed: %v (state before %+v)", k, what, cpu.Name(), p, st)
			}
			if f := mems[i].BusFault(); f != "" {
				return fmt.Errorf("step %d %s: %s %s (state before %+v)", k, what, cpu.Name(), f, st)
			}
		}
		if synth != nil {
			synth.NoteAccess(mems[0].Log)
		}
		if pri.Raw().Stopped {
			break
		}
	}
	return nil
}

func c08Check(data []byte) error {
	var rf rig.ReplayFile
	if err := json.Unmarshal(data, &rf); err != nil {
		return err
	}
	var probe map[string]json.RawMessage
	_ = json.Unmarshal(rf.Case, &probe)
	if _, isProg := probe["steps"]; isProg {
		var pc progCase
		if err := json.Unmarshal(rf.Case, &pc); err != nil {
			return err
		}
		pri, alt := cpus()
		return runLockstep(&pc, nil, []rig.CPU{pri, alt}, nil)
	}
	var c c02Case
	if err := json.Unmarshal(rf.Case, &c); err != nil {
		return err
	}
	return c08Run(&c, nil, 0, nil)
}

func init() { rig.RegisterReplay("C08", c08Check) }

func c08Edge(cls string) bool {
	switch cls {
	case "overflow24", "straddle-top", "top", "top-bank-carry", "top-bank-end", "top-interior", "top-page-end", "top-bank-start":
		return true
	}
	return false
}

func TestC08(t *testing.T) {
	rig.Main(t, "C08", "rapid programs pinned to the top of the address space (DBR=$FF half of the time, long operands and [dp] pointers within $FFFF of $FFFFFF, "+
		"index sums solved to carry out of 24 bits, 16-bit data starting at $FFFFFF) on a fully mapped recording memory, both interpreters: phase native = lockstep with the "+
		"WDC model (access must land at EA mod 2^24), phase any-mode (E=1 in half of the cases) = no panic and no bus address >= 2^24.  Non-trivial = a step whose solved effective "+
		"address overflows 24 bits or whose datum straddles $FFFFFF/$000000; distinct = hash(state, seed, patches).",
		func(r *rig.Run) {
			ev := r.Ev
			pri, alt := cpus()
			var edgeSteps, steps, e1 int64
			r.Rapid("native-lockstep", rig.Pick(50000, 250000), func(t *rapid.T) {
				d := rig.RapidDrawer{T: t}
				syn := rig.NewSynth(d, nil)
				syn.Top = true
				c := progCase{MemSeed: d.U32("memseed"), Steps: 1 + d.Intn("steps", 4), Top: true}
				op0 := byte(d.U32("op0-pre"))
				c.Init = rig.GenArch(d, op0, true)
				syn.ForceFirst(op0)
				var st lockstepStats
				err := func() error {
					defer r.Deadman("native", &c)()
					return runLockstep(&c, syn, []rig.CPU{pri, alt}, &st)
				}()
				if err != nil {
					r.Fail(t, "native", c, err)
				}
				nt := false
				h := rig.Hash64(fmt.Sprint(c.Init), c.MemSeed)
				for _, si := range st.Steps {
					if c08Edge(si.Cls) {
						nt = true
						edgeSteps++
						ev.Class("native/" + wdc.ModeName[wdc.Optab[si.Op].Md] + "/" + si.Cls)
					}
					h = rig.Hash64(h, si.Op, si.Cls)
				}
				for _, p := range c.Patches {
					h = h*1099511628211 ^ uint64(p.Addr)<<8 ^ uint64(p.Val)
				}
				steps += int64(len(st.Steps))
				ev.Case(nt, h, func() interface{} { return c })
			})
			r.Rapid("any-mode", rig.Pick(50000, 250000), func(t *rapid.T) {
				d := rig.RapidDrawer{T: t}
				syn := rig.NewSynth(d, nil)
				syn.Top = true
				op0 := byte(d.U32("op0-pre"))
				syn.ForceFirst(op0)
				c := c02Case{MemSeed: d.U32("memseed")}
				a := rig.GenArch(d, op0, true)
				a.E = d.Intn("emu", 2) == 0
				c.Init = rig.ArchToRaw(a)
				var st c02Stats
				err := func() error {
					defer r.Deadman("anymode", &c)()
					return c08Run(&c, syn, 1+d.Intn("steps", 4), &st)
				}()
				if err != nil {
					r.Fail(t, "anymode", c, err)
				}
				nt := false
				h := rig.Hash64(fmt.Sprint(c.Init), c.MemSeed, "any")
				for _, si := range st.Steps {
					if c08Edge(si.Cls) {
						nt = true
						edgeSteps++
						md := "native"
						if a.E {
							md = "emulation"
						}
						ev.Class(md + "/" + wdc.ModeName[wdc.Optab[si.Op].Md] + "/" + si.Cls)
					}
					h = rig.Hash64(h, si.Op, si.Cls)
				}
				for _, p := range c.Patches {
					h = h*1099511628211 ^ uint64(p.Addr)<<8 ^ uint64(p.Val)
				}
				steps += int64(len(st.Steps))
				e1 += int64(st.E1Steps)
				ev.Case(nt, h, func() interface{} { return c })
			})
			ev.Extra["steps_executed"] = steps
			ev.Extra["steps_at_the_top_of_memory"] = edgeSteps
			ev.Extra["steps_in_emulation_mode"] = e1
			if steps > 20000 && (edgeSteps < steps/20 || e1 == 0) {
				r.Infra("generator reached the top of memory in only %d of %d steps (E=1 steps %d)", edgeSteps, steps, e1)
			}
		})
}
