package props

import (
	"encoding/json"
	"errors"
	"fmt"
	"sync/atomic"
	"testing"

	"github.com/alttpo/snes/mapping/exhirom"
	"github.com/alttpo/snes/mapping/hirom"
	"github.com/alttpo/snes/mapping/lorom"
	"github.com/alttpo/snes/mapping/sa1rom"
	"github.com/alttpo/snes/mapping/util"
	"pgregory.net/rapid"

	"verif/harness/rig"
)

// Shared by C04 and C05: the four cartridge mappers.

type mapperT struct {
	name     string
	b2p, p2b func(uint32) (uint32, error)
}

var mappers = []mapperT{
	{"lorom", lorom.BusAddressToPak, lorom.PakAddressToBus},
	{"hirom", hirom.BusAddressToPak, hirom.PakAddressToBus},
	{"exhirom", exhirom.BusAddressToPak, exhirom.PakAddressToBus},
	{"sa1rom", sa1rom.BusAddressToPak, sa1rom.PakAddressToBus},
}

func mapperByName(n string) (mapperT, error) {
	for _, m := range mappers {
		if m.name == n {
			return m, nil
		}
	}
	return mapperT{}, fmt.Errorf("unknown mapper %q", n)
}

// pakClass names the FX Pak Pro window of an address ("" = the unassigned window).
// Pak addresses $F70000+ are the documented mirrors of WRAM.
func pakClass(p uint32) string {
	switch {
	case p < 0xE00000:
		return "ROM"
	case p < 0xF00000:
		return "SRAM"
	case p >= 0xF50000 && p < 0x1000000:
		return "WRAM"
	}
	return ""
}

type mapCase struct {
	Mapper string `json:"mapper"`
	Dir    string `json:"dir"` // "bus" (a bus address) or "pak" (a pak address)
	Addr   uint32 `json:"addr"`
}

// C04 — PakAddressToBus is a right inverse of BusAddressToPak.
func c04Check(c mapCase) error {
	m, err := mapperByName(c.Mapper)
	if err != nil {
		return err
	}
	return c04CheckM(m, c)
}

func c04CheckM(m mapperT, c mapCase) error {
	switch c.Dir {
	case "bus":
		p, err := m.b2p(c.Addr)
		if err != nil {
			return nil // unmapped bus address: nothing to round-trip
		}
		b, err := m.p2b(p)
		if err != nil {
			return fmt.Errorf("%s: bus $%06X -> pak $%06X, but PakAddressToBus($%06X) fails: %v", c.Mapper, c.Addr, p, p, err)
		}
		p2, err := m.b2p(b)
		if err != nil {
			return fmt.Errorf("%s: bus $%06X -> pak $%06X -> bus $%06X which BusAddressToPak rejects: %v", c.Mapper, c.Addr, p, b, err)
		}
		if p2 != p {
			return fmt.Errorf("%s: bus $%06X -> pak $%06X -> bus $%06X -> pak $%06X: not the same cell", c.Mapper, c.Addr, p, b, p2)
		}
	case "pak":
		b, err := m.p2b(c.Addr)
		if err != nil {
			return nil // rejected pak address (C05 decides which ones may be rejected)
		}
		p2, err := m.b2p(b)
		if err != nil {
			return fmt.Errorf("%s: pak $%06X -> bus $%06X which BusAddressToPak does not map: %v", c.Mapper, c.Addr, b, err)
		}
		if pakClass(p2) != pakClass(c.Addr) {
			return fmt.Errorf("%s: pak $%06X (%s) -> bus $%06X -> pak $%06X (%s): different memory class", c.Mapper, c.Addr, pakClass(c.Addr), b, p2, pakClass(p2))
		}
		if p2&0x1FFF != c.Addr&0x1FFF {
			return fmt.Errorf("%s: pak $%06X -> bus $%06X -> pak $%06X: offset within the 8 KiB page changed", c.Mapper, c.Addr, b, p2)
		}
	default:
		return fmt.Errorf("bad dir %q", c.Dir)
	}
	return nil
}

func decodeMapCase(data []byte) (mapCase, error) {
	var rf rig.ReplayFile
	var c mapCase
	if err := json.Unmarshal(data, &rf); err != nil {
		return c, err
	}
	err := json.Unmarshal(rf.Case, &c)
	return c, err
}

func init() {
	rig.RegisterReplay("C04", func(data []byte) error {
		c, err := decodeMapCase(data)
		if err != nil {
			return err
		}
		return c04Check(c)
	})
}

// edge-biased 24-bit address generator
func genAddr24(t *rapid.T, label string) uint32 {
	switch rapid.IntRange(0, 3).Draw(t, label+"-kind") {
	case 0:
		return rapid.Uint32Range(0, 0xFFFFFF).Draw(t, label)
	case 1: // bank edge
		bank := rapid.Uint32Range(0, 0xFF).Draw(t, label+"-bank")
		off := rapid.SampledFrom([]uint32{0, 1, 0x1FFE, 0x1FFF, 0x2000, 0x2001, 0x5FFF, 0x6000, 0x7FFF, 0x8000, 0xFFFE, 0xFFFF}).Draw(t, label+"-off")
		return bank<<16 | off
	case 2: // region edge banks
		bank := rapid.SampledFrom([]uint32{0x00, 0x1F, 0x20, 0x3D, 0x3E, 0x3F, 0x40, 0x43, 0x44, 0x4F, 0x50, 0x6F, 0x70, 0x7D, 0x7E, 0x7F, 0x80, 0x9F, 0xA0, 0xBF, 0xC0, 0xDF, 0xE0, 0xE6, 0xE7, 0xED, 0xEE, 0xEF, 0xF0, 0xF4, 0xF5, 0xF6, 0xF7, 0xFD, 0xFE, 0xFF}).Draw(t, label+"-bank")
		return bank<<16 | rapid.Uint32Range(0, 0xFFFF).Draw(t, label+"-off")
	default:
		page := rapid.Uint32Range(0, 0x7FF).Draw(t, label+"-page")
		return page<<13 | rapid.SampledFrom([]uint32{0, 1, 0x1FFE, 0x1FFF}).Draw(t, label+"-off")
	}
}

func TestC04(t *testing.T) {
	rig.Main(t, "C04", "complete enumeration of all 2^24 bus addresses and all 2^24 pak addresses for each of the 4 mappers "+
		"(round trip bus->pak->bus->pak; pak->bus->pak keeps class and 8 KiB offset), plus edge-biased rapid samples; a second process repeats the enumeration with the mappers and the two directions in reverse order, before the committed regression cases are replayed (no answer may depend on which function was called first in the process). "+
		"Every enumerated (mapper, direction, address) is distinct; non-trivial = the first translation succeeds.",
		func(r *rig.Run) {
			ev := r.Ev
			ev.Exhaustive = true
			// the second shard (a process of its own) makes the same sweep with the mappers and the two directions in reverse
			// order: a translation must not depend on which mapper or direction was used first in the process; its sweep is
			// not counted a second time in the evidence
			order, dirs := mappers, []string{"bus", "pak"}
			recount := rig.Shard()%2 == 1
			if recount {
				order = nil
				for i := len(mappers) - 1; i >= 0; i-- {
					order = append(order, mappers[i])
				}
				dirs = []string{"pak", "bus"}
			}
			for _, m := range order {
				for _, dir := range dirs {
					var mf rig.MinFail
					var mapped int64
					m, dir := m, dir
					panicAt, perr := rig.ParChunks(1<<24, 1<<16, func(lo, hi uint64) {
						var n int64
						for a := lo; a < hi; a++ {
							if mf.Failed() {
								break
							}
							var e error
							if dir == "bus" {
								_, e = m.b2p(uint32(a))
							} else {
								_, e = m.p2b(uint32(a))
							}
							if e == nil {
								n++
							}
							c := mapCase{m.name, dir, uint32(a)}
							if err := c04CheckM(m, c); err != nil {
								mf.Report(a, err, c)
							}
						}
						atomic.AddInt64(&mapped, n)
					})
					if perr != nil { // locate the panicking address
						for a := panicAt; a < panicAt+1<<16; a++ {
							c := mapCase{m.name, dir, uint32(a)}
							if err := rig.Safe(func() error { return c04Check(c) }); err != nil {
								mf.Report(a, err, c)
								break
							}
						}
					}
					if mf.Failed() {
						_, err, d := mf.Get()
						r.Violation(m.name+"-"+dir, d, err)
					}
					if recount {
						ev.ClassN("swept-again-with-mappers-and-directions-in-reverse-order(not-counted-as-cases)", 1<<24)
						continue
					}
					ev.Bulk(1<<24, mapped)
					ev.ClassN(m.name+"/"+dir+"/translated", mapped)
				}
				ev.Sample(mapCase{m.name, "bus", 0xFE0000})
			}
			r.Rapid("rapid", rig.Pick(20000, 200000), func(t *rapid.T) {
				c := mapCase{rapid.SampledFrom([]string{"lorom", "hirom", "exhirom", "sa1rom"}).Draw(t, "mapper"),
					rapid.SampledFrom([]string{"bus", "pak"}).Draw(t, "dir"), genAddr24(t, "addr")}
				r.Check(t, "rapid", c, func() error { return c04Check(c) })
				ev.Case(true, rig.Hash64(c.Mapper, c.Dir, c.Addr), func() interface{} { return c })
			})
			ev.Assumption("class windows: ROM < $E00000, SRAM $E00000-$EFFFFF, WRAM $F50000-$FFFFFF (the mirrors $F70000+ count as WRAM), as in the property statement")
		})
}

func init() {
	rig.RegressLate["C04"] = true
	rig.RegressLate["C05"] = true
}

var _ = errors.Is
var _ = util.ErrUnmappedAddress
