package props

import (
	"encoding/json"
	"fmt"
	"testing"

	"github.com/alttpo/snes/color15"
	"pgregory.net/rapid"

	"verif/harness/rig"
)

// C17 — 15-bit colour packing is lossless and MulDiv scales channels with saturation.

type c17Case struct {
	Op      string `json:"op"` // "roundtrip", "pack", "muldiv", "mono", "lum"
	Color   uint16 `json:"color"`
	R, G, B uint8
	Mul     uint8 `json:"mul"`
	Div     uint8 `json:"div"`
}

func c17RefMulDiv(c uint16, m, d uint8) uint16 {
	ch := func(v uint32) uint32 {
		q := v * uint32(m) / uint32(d)
		if q > 31 {
			q = 31
		}
		return q
	}
	r, g, b := uint32(c&31), uint32(c>>5&31), uint32(c>>10&31)
	return uint16(ch(b)<<10 | ch(g)<<5 | ch(r))
}

func c17Check(c c17Case) error {
	col := color15.Color(c.Color)
	switch c.Op {
	case "roundtrip":
		r, g, b := col.ToRGB()
		if r != uint8(c.Color&31) || g != uint8(c.Color>>5&31) || b != uint8(c.Color>>10&31) {
			return fmt.Errorf("ToRGB(%#04x) = (%d,%d,%d), want (%d,%d,%d)", c.Color, r, g, b, c.Color&31, c.Color>>5&31, c.Color>>10&31)
		}
		if got := color15.ToColor15(r, g, b); uint16(got) != c.Color&0x7fff {
			return fmt.Errorf("ToColor15(ToRGB(%#04x)) = %#04x, want %#04x", c.Color, uint16(got), c.Color&0x7fff)
		}
	case "lum":
		r, g, b := uint32(c.Color&31), uint32(c.Color>>5&31), uint32(c.Color>>10&31)
		if got, want := col.Luminosity(), uint8((r+g+b)/3); got != want {
			return fmt.Errorf("Luminosity(%#04x) = %d, want %d", c.Color, got, want)
		}
	case "pack":
		p := color15.ToColor15(c.R, c.G, c.B)
		if uint16(p)&0x8000 != 0 {
			return fmt.Errorf("ToColor15(%d,%d,%d) = %#04x sets bit 15", c.R, c.G, c.B, uint16(p))
		}
		r, g, b := p.ToRGB()
		if r != c.R%32 || g != c.G%32 || b != c.B%32 {
			return fmt.Errorf("ToRGB(ToColor15(%d,%d,%d)) = (%d,%d,%d), want channels mod 32", c.R, c.G, c.B, r, g, b)
		}
	case "muldiv":
		if c.Div == 0 {
			return nil // outside the property's domain
		}
		got, want := uint16(col.MulDiv(c.Mul, c.Div)), c17RefMulDiv(c.Color, c.Mul, c.Div)
		if got != want {
			return fmt.Errorf("Color(%#04x).MulDiv(%d,%d) = %#04x, want %#04x (per channel min(31, floor(ch*m/d)))", c.Color, c.Mul, c.Div, got, want)
		}
	case "mono": // table-free metamorphic relations: identity, monotone in the multiplicand, range
		if c.Div == 0 {
			return nil
		}
		lo := col.MulDiv(c.Mul, c.Div)
		if uint16(lo)&0x8000 != 0 {
			return fmt.Errorf("Color(%#04x).MulDiv(%d,%d) = %#04x sets bit 15", c.Color, c.Mul, c.Div, uint16(lo))
		}
		if c.Mul == c.Div && uint16(lo) != c.Color&0x7fff {
			return fmt.Errorf("Color(%#04x).MulDiv(%d,%d) = %#04x is not the identity", c.Color, c.Mul, c.Div, uint16(lo))
		}
		if c.Mul < 255 {
			hi := col.MulDiv(c.Mul+1, c.Div)
			r0, g0, b0 := lo.ToRGB()
			r1, g1, b1 := hi.ToRGB()
			if r1 < r0 || g1 < g0 || b1 < b0 {
				return fmt.Errorf("Color(%#04x).MulDiv: ratio %d/%d gives %#04x but the larger ratio %d/%d gives darker %#04x", c.Color, c.Mul, c.Div, uint16(lo), c.Mul+1, c.Div, uint16(hi))
			}
		}
	default:
		return fmt.Errorf("unknown op %q", c.Op)
	}
	return nil
}

func init() {
	rig.RegisterReplay("C17", func(data []byte) error {
		var rf rig.ReplayFile
		if err := json.Unmarshal(data, &rf); err != nil {
			return err
		}
		var c c17Case
		if err := json.Unmarshal(rf.Case, &c); err != nil {
			return err
		}
		return c17Check(c)
	})
}

func TestC17(t *testing.T) {
	rig.Main(t, "C17", "complete enumeration: all 2^16 colours (unpack/pack, luminosity), all 2^24 channel triples (pack/unpack), "+
		"MulDiv against min(31,floor(ch*m/d)) for every colour with one non-zero channel x 256 multiplicands x 255 divisors in quick "+
		"and for all 2^16 colours x 256 x 255 in thorough, plus rapid-sampled full colours; identity/monotonicity/bit-15 relations "+
		"checked table-free.  Every enumerated point is distinct; non-trivial = the call is inside the property's domain (divisor != 0).",
		func(r *rig.Run) {
			ev := r.Ev
			// 1. all 2^16 colours: round trip + luminosity
			var mf MinFail17
			for c := 0; c < 1<<16; c++ {
				for _, op := range []string{"roundtrip", "lum"} {
					cs := c17Case{Op: op, Color: uint16(c)}
					if err := rig.Safe(func() error { return c17Check(cs) }); err != nil {
						mf.report(r, op, cs, err)
					}
				}
			}
			ev.Bulk(2<<16, 2<<16)
			ev.ClassN("roundtrip", 1<<16)
			ev.ClassN("luminosity", 1<<16)
			ev.Sample(c17Case{Op: "roundtrip", Color: 0xffff})
			// 2. all 2^24 channel triples
			var packFail rig.MinFail
			rig.ParChunks(1<<24, 1<<16, func(lo, hi uint64) {
				for i := lo; i < hi && !packFail.Failed(); i++ {
					cs := c17Case{Op: "pack", R: uint8(i), G: uint8(i >> 8), B: uint8(i >> 16)}
					if err := rig.Safe(func() error { return c17Check(cs) }); err != nil {
						packFail.Report(i, err, cs)
					}
				}
			})
			if packFail.Failed() {
				_, err, d := packFail.Get()
				r.Violation("pack", d, err)
			}
			ev.Bulk(1<<24, 1<<24)
			ev.ClassN("pack-triples", 1<<24)
			// 3. MulDiv
			colours := make([]uint16, 0, 1<<16)
			if rig.Thorough() {
				for c := 0; c < 1<<16; c++ {
					colours = append(colours, uint16(c))
				}
				ev.Exhaustive = true
			} else {
				for pos := uint(0); pos < 3; pos++ {
					for v := 0; v < 32; v++ {
						colours = append(colours, uint16(v)<<(5*pos))
					}
				}
				colours = append(colours, 0x7fff, 0xffff, 0x8000, 0x1ce7, 0x12ef)
			}
			var mdFail, monoFail rig.MinFail
			rig.ParChunks(uint64(len(colours)), 16, func(lo, hi uint64) {
				for i := lo; i < hi; i++ {
					c := colours[i]
					for m := 0; m < 256; m++ {
						for d := 1; d < 256; d++ {
							if !mdFail.Failed() {
								cs := c17Case{Op: "muldiv", Color: c, Mul: uint8(m), Div: uint8(d)}
								if err := rig.Safe(func() error { return c17Check(cs) }); err != nil {
									mdFail.Report(i<<16|uint64(m)<<8|uint64(d), err, cs)
								}
							}
							if !monoFail.Failed() {
								cs := c17Case{Op: "mono", Color: c, Mul: uint8(m), Div: uint8(d)}
								if err := rig.Safe(func() error { return c17Check(cs) }); err != nil {
									monoFail.Report(i<<16|uint64(m)<<8|uint64(d), err, cs)
								}
							}
						}
					}
				}
			})
			if mdFail.Failed() {
				_, err, d := mdFail.Get()
				r.Violation("muldiv", d, err)
			}
			if monoFail.Failed() {
				_, err, d := monoFail.Get()
				r.Violation("mono", d, err)
			}
			n := int64(len(colours)) * 256 * 255
			ev.Bulk(2*n, n)
			ev.ClassN("muldiv-oracle", n)
			ev.ClassN("muldiv-relations", n)
			ev.Sample(c17Case{Op: "muldiv", Color: 0x7fff, Mul: 255, Div: 30})
			// 4. rapid samples of full colours (shrinks to a small failing colour/ratio)
			sat := 0
			r.Rapid("muldiv-rapid", rig.Pick(200000, 2000000), func(t *rapid.T) {
				cs := c17Case{Op: "muldiv", Color: rapid.Uint16().Draw(t, "color"), Mul: rapid.Uint8().Draw(t, "mul"), Div: rapid.Uint8Range(1, 255).Draw(t, "div")}
				r.Check(t, "muldiv", cs, func() error { return c17Check(cs) })
				cs.Op = "mono"
				r.Check(t, "mono", cs, func() error { return c17Check(cs) })
				if uint32(cs.Color&31)*uint32(cs.Mul)/uint32(cs.Div) > 31 {
					sat++
				}
				ev.Case(true, rig.Hash64(cs.Color, cs.Mul, cs.Div), func() interface{} { return cs })
			})
			ev.ClassN("rapid-saturating-red", int64(sat))
			ev.Assumption("the reference is computed in 32-bit integer arithmetic from the property statement")
		})
}

// MinFail17 reports only the first failure per op of the sequential part.
type MinFail17 struct{ seen map[string]bool }

func (m *MinFail17) report(r *rig.Run, op string, c c17Case, err error) {
	if m.seen == nil {
		m.seen = map[string]bool{}
	}
	if m.seen[op] {
		return
	}
	m.seen[op] = true
	r.Violation(op, c, err)
}
