package props

import (
	"fmt"
	"os"
	"strconv"
	"testing"

	"verif/harness/rig"
)

// TestReplay re-checks one replay file without rapid: the plain regression entry point.
func TestReplay(t *testing.T) {
	id, file := os.Getenv("VERIF_REPLAY_ID"), os.Getenv("VERIF_REPLAY_FILE")
	if id == "" {
		t.Skip("no replay requested")
	}
	err := rig.Replay(id, file)
	if err == nil {
		fmt.Printf("REPLAY-OK property=%s file=%s\n", id, file)
		return
	}
	if kf, ok := err.(*rig.KnownErr); ok {
		if _, listed := rig.IsKnown(id, kf.Finding); listed {
			fmt.Printf("KNOWN-FINDING: property=%s %s: %s\n", id, kf.Finding, kf.What)
			return
		}
	}
	fmt.Printf("replay fails: %v\n", err)
	fmt.Printf("VIOLATION property=%s replay=%s\n", id, file)
	t.Fail()
}

// TestMerge combines shard evidence into evidence/<id>.json.
func TestMerge(t *testing.T) {
	id := os.Getenv("VERIF_MERGE_ID")
	if id == "" {
		t.Skip("no merge requested")
	}
	n, _ := strconv.Atoi(os.Getenv("VERIF_MERGE_SHARDS"))
	if err := rig.MergeShards(id, n); err != nil {
		t.Fatalf("merge: %v", err)
	}
}
