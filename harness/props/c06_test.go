package props

import (
	"bytes"
	"encoding/json"
	"fmt"
	"regexp"
	"strconv"
	"strings"
	"testing"

	"github.com/alttpo/snes/asm"
	"pgregory.net/rapid"

	"verif/harness/asmcat"
	"verif/harness/rig"
)

// C06 — Finalize resolves every label reference to the right target or reports an error.

type c06Case struct {
	Listing bool        `json:"listing"`
	Ops     []asmcat.Op `json:"ops"`
	// Tight: the target buffer is exactly as long as the program
	Tight bool `json:"tight,omitempty"`
	// EarlyAt > 0: Finalize is also called before op EarlyAt (the program is continued afterwards)
	EarlyAt int `json:"early_at,omitempty"`
	// ops[CloneFrom:CloneTo] are emitted into a Clone that is appended back (0,0 = everything directly); with Sibling a
	// second clone made at the same point gets a NOP and then the same calls, each right after the kept clone, and is discarded
	// Short > 0 (without clones): the buffer is that many bytes too small, so calls near the end are refused (and recovered
	// by the caller, who goes on): a refused reference is no reference
	Short     int  `json:"short,omitempty"`
	CloneFrom int  `json:"clone_from,omitempty"`
	CloneTo   int  `json:"clone_to,omitempty"`
	Sibling   bool `json:"sibling,omitempty"`
}

var (
	reUnresolved = regexp.MustCompile(`^could not resolve label '(.*)'$`)
	reTooFar     = regexp.MustCompile(`^branch from (0x[0-9a-f]+) to (0x[0-9a-f]+) too far for signed 8-bit; diff=(-?[0-9]+)$`)
)

// c06Finalize calls Finalize on the pair and checks the outcome against the specification.
func c06Finalize(p *emPair, round int) error {
	out := p.m.Finalize()
	pre := append([]byte(nil), p.em.Bytes()...)
	var err error
	if pe := rig.Safe(func() error { err = p.em.Finalize(); return nil }); pe != nil {
		return fmt.Errorf("Finalize #%d panicked: %v", round, pe)
	}
	post := p.em.Bytes()
	if (err == nil) != out.OK {
		return fmt.Errorf("Finalize #%d returned %v, but the program has %d undefined labels %v and %d out-of-range branches (success expected: %v)", round, err, len(out.Missing), keys(out.Missing), len(out.TooFar), out.OK)
	}
	if len(post) != len(pre) {
		return fmt.Errorf("Finalize #%d changed the length %d -> %d", round, len(pre), len(post))
	}
	if out.OK {
		if !bytes.Equal(post, out.Patched) {
			i := firstDiff(post, out.Patched)
			return fmt.Errorf("after Finalize #%d byte %d (address $%06x) is %02x, want %02x (patched displacement / address)", round, i, p.m.Base+uint32(i), post[i], out.Patched[i])
		}
		p.m.Resolve(out)
		return nil
	}
	// failure: message names a really unresolved or out-of-range reference
	msg := err.Error()
	if m := reUnresolved.FindStringSubmatch(msg); m != nil {
		if !out.Missing[m[1]] {
			return fmt.Errorf("Finalize #%d reports %q but that label is defined or never referenced (undefined: %v)", round, msg, keys(out.Missing))
		}
	} else if m := reTooFar.FindStringSubmatch(msg); m != nil {
		from, _ := strconv.ParseUint(m[1], 0, 32)
		to, _ := strconv.ParseUint(m[2], 0, 32)
		diff, _ := strconv.Atoi(m[3])
		ok := false
		for _, r := range out.TooFar {
			if uint64(r.OpAddr+1) == from && uint64(p.m.Labels[r.Label]) == to && out.Diffs[r.Off] == diff {
				ok = true
			}
		}
		if !ok {
			return fmt.Errorf("Finalize #%d reports %q but no relative branch has that origin, target and distance (out of range: %+v)", round, msg, out.TooFar)
		}
	} else if !c06Names(msg, p, out) {
		return fmt.Errorf("Finalize #%d failed with an error that names neither an unresolved label nor an out-of-range branch: %q", round, msg)
	}
	// nothing but operand bytes of label references may have changed; each holds the placeholder or the correct patch
	isOperand := map[int]bool{}
	for _, r := range p.m.Refs {
		isOperand[r.Off] = true
		if r.Wide {
			isOperand[r.Off+1] = true
		}
	}
	for i := range post {
		if post[i] == pre[i] {
			continue
		}
		if !isOperand[i] {
			return fmt.Errorf("failing Finalize #%d changed byte %d (address $%06x) %02x -> %02x which is not an operand byte of a label reference", round, i, p.m.Base+uint32(i), pre[i], post[i])
		}
	}
	for _, r := range p.m.Refs {
		n := 1
		if r.Wide {
			n = 2
		}
		got := post[r.Off : r.Off+n]
		placeholder := bytes.Equal(got, bytes.Repeat([]byte{0xff}, n))
		if want, ok := out.Patch[r.Off]; ok {
			if !placeholder && !bytes.Equal(got, want) {
				return fmt.Errorf("after failing Finalize #%d the reference to %q at $%06x holds [% x]: neither the placeholder nor the correct patch [% x]", round, r.Label, r.OpAddr, got, want)
			}
		} else if !placeholder && !bytes.Equal(got, pre[r.Off:r.Off+n]) {
			return fmt.Errorf("after failing Finalize #%d the unresolvable reference to %q at $%06x was overwritten with [% x]", round, r.Label, r.OpAddr, got)
		}
	}
	// keep the model in step with the partial patching: adopt patched operand bytes
	copy(p.m.Bytes, post)
	return nil
}

// c06Names is the tolerant reading of "an error naming an unresolved or out-of-range reference" for messages that
// do not have today's wording: the text must mention an undefined label that is referenced, or an out-of-range
// branch by its label, its own address or its target address (hex, any case, with or without prefix).
func c06Names(msg string, p *emPair, out asmcat.FinalizeOutcome) bool {
	low := strings.ToLower(msg)
	for l := range out.Missing {
		if strings.Contains(msg, l) {
			return true
		}
	}
	for _, r := range out.TooFar {
		if strings.Contains(msg, r.Label) {
			return true
		}
		for _, a := range []uint32{r.OpAddr, r.OpAddr + 1, r.Ins, p.m.Labels[r.Label]} {
			for _, f := range []string{"%x", "%04x", "%06x"} {
				if strings.Contains(low, fmt.Sprintf(f, a)) {
					return true
				}
			}
		}
	}
	return false
}

func keys(m map[string]bool) []string {
	var k []string
	for s := range m {
		k = append(k, s)
	}
	return k
}

func c06Check(c c06Case) error {
	capacity := needOf(c.Ops) + 8
	if c.Tight {
		capacity -= 8
	}
	useClone := c.CloneTo > c.CloneFrom && c.CloneTo <= len(c.Ops) && (c.EarlyAt <= c.CloneFrom || c.EarlyAt >= c.CloneTo)
	if c.Short > 0 && !useClone {
		if capacity = needOf(c.Ops) - c.Short; capacity < 1 {
			capacity = 1
		}
	}
	p := &emPair{em: asm.NewEmitter(make([]byte, capacity), c.Listing), m: asmcat.NewModel(capacity, false, c.Listing)}
	orig := p.em
	var sib *asm.Emitter
	join := func() error {
		var pan interface{}
		func() {
			defer func() { pan = recover() }()
			orig.Append(p.em)
		}()
		if pan != nil {
			return fmt.Errorf("Append of the clone failed: %v", pan)
		}
		p.em, p.lenBias, sib = orig, 0, nil
		return nil
	}
	for i, o := range c.Ops {
		if useClone && i == c.CloneTo {
			if err := join(); err != nil {
				return err
			}
		}
		if c.EarlyAt > 0 && i == c.EarlyAt {
			// an early Finalize: resolves what can be resolved so far; the program is then continued
			if err := c06Finalize(p, 0); err != nil {
				return fmt.Errorf("(early, before op %d) %v", i, err)
			}
			if err := p.checkLabels(); err != nil {
				return fmt.Errorf("after the early Finalize: %v", err)
			}
		}
		if useClone && i == c.CloneFrom {
			p.lenBias = orig.Len()
			p.em = orig.Clone(make([]byte, capacity))
			if c.Sibling {
				sib = orig.Clone(make([]byte, capacity+1))
				sib.NOP()
			}
		}
		if err := p.step(i, o); err != nil {
			return err
		}
		if sib != nil {
			asmcat.ApplyReal(sib, o)
		}
		if o.Kind == "label" {
			if err := p.checkLabels(); err != nil {
				return fmt.Errorf("after op %d: %v", i, err)
			}
		}
	}
	if useClone && p.em != orig {
		if err := join(); err != nil {
			return err
		}
	}
	if !bytes.Equal(p.em.Bytes(), p.m.Bytes) {
		return fmt.Errorf("emitted image differs from the model before Finalize at byte %d", firstDiff(p.em.Bytes(), p.m.Bytes))
	}
	if err := c06Finalize(p, 1); err != nil {
		return err
	}
	if err := p.checkLabels(); err != nil {
		return fmt.Errorf("after Finalize: %v", err)
	}
	// a second Finalize: same verdict class, nothing else changes
	return c06Finalize(p, 2)
}

func init() {
	rig.RegisterReplay("C06", func(data []byte) error {
		var rf rig.ReplayFile
		if err := json.Unmarshal(data, &rf); err != nil {
			return err
		}
		var c c06Case
		if err := json.Unmarshal(rf.Case, &c); err != nil {
			return err
		}
		return c06Check(c)
	})
}

func TestC06(t *testing.T) {
	rig.Main(t, "C06", "rapid emitter histories (instructions, data, labels from a pool of 8, forward/backward/multiple/missing references, absolute jumps, duplicate label definitions, "+
		"optional base address set first, program within one bank) with branch distances solved to -129/-128/-127 and +126/+127/+128, run on a real emitter and on an executable model; "+
		"Finalize's verdict, every patched byte, the error message and the set of bytes a failing Finalize may touch are compared, and Finalize is called twice at the end and, in a third of the cases, also at a drawn earlier point after which the program continues; the buffer is exactly as long as the program in a quarter of the cases; in a quarter a drawn part of the calls reaches the emitter through Clone + Append (half of these with a second, discarded clone used at the same time); a fifth of the clone-free histories run in a buffer that is 1-6 bytes too small (refused calls, then Finalize).  Non-trivial = the history "+
		"contains a label reference; distinct = hash(case).",
		func(r *rig.Run) {
			ev := r.Ev
			// many references to one label (more than a byte-sized or 16-entry structure holds), before and after its definition
			if rig.Shard() == 0 {
				for _, n := range []int{15, 16, 17, 63, 108, 118, 128, 236, 246, 255, 256, 257, 300, 492, 512, 1000} { // (with the branches: 128, 256 and 512 references in all)
					for _, labelFirst := range []bool{false, true} {
						var ops []asmcat.Op
						if labelFirst {
							ops = append(ops, asmcat.Op{Kind: "ins", Method: "NOP"}, asmcat.Op{Kind: "label", Label: "l0"})
						}
						for i := 0; i < n; i++ {
							ops = append(ops, asmcat.Op{Kind: "ins", Method: "JMP_abs", Label: "l0"})
							if labelFirst && i < 20 || !labelFirst && i >= n-20 { // relative branches too, where they are in range
								ops = append(ops, asmcat.Op{Kind: "ins", Method: "BRA", Label: "l0"})
							}
						}
						if !labelFirst {
							ops = append(ops, asmcat.Op{Kind: "label", Label: "l0"})
						}
						c := c06Case{Ops: ops, Tight: n%2 == 1}
						r.CheckSweep("many-refs", c, func() error { return c06Check(c) })
						raw, _ := json.Marshal(c)
						ev.Case(true, rig.Hash64(raw), nil)
						ev.Class("many-references-to-one-label")
					}
				}
			}
			r.Rapid("rapid", rig.Pick(40000, 150000), func(t *rapid.T) {
				c := c06Case{Listing: rapid.Bool().Draw(t, "listing")}
				c.Ops = asmcat.GenHistory(t, asmcat.GenOpts{MaxOps: rig.Pick(40, 120), Labels: true, Data: true, Comments: true, SetBase: true, Assume: true})
				c.Tight = rapid.IntRange(0, 3).Draw(t, "tight") == 0
				if len(c.Ops) > 2 && rapid.IntRange(0, 2).Draw(t, "early-finalize") == 0 {
					c.EarlyAt = rapid.IntRange(1, len(c.Ops)-1).Draw(t, "early-at")
					ev.Class("finalize/also-called-early-then-continued")
				}
				if c.Tight {
					ev.Class("buffer-exactly-as-long-as-the-program")
				}
				if len(c.Ops) > 1 && rapid.IntRange(0, 3).Draw(t, "via-clone") == 0 {
					c.CloneFrom = rapid.IntRange(0, len(c.Ops)-1).Draw(t, "clone-from")
					c.CloneTo = rapid.IntRange(c.CloneFrom+1, len(c.Ops)).Draw(t, "clone-to")
					c.Sibling = rapid.Bool().Draw(t, "sibling")
					if c.EarlyAt <= c.CloneFrom || c.EarlyAt >= c.CloneTo {
						ev.Class("part-emitted-through-Clone+Append")
						if c.Sibling {
							ev.Class("part-emitted-through-Clone+Append/second-clone-alive")
						}
					}
				}
				if c.CloneTo == 0 && rapid.IntRange(0, 4).Draw(t, "short") == 0 {
					c.Short = rapid.IntRange(1, 6).Draw(t, "short-by")
					ev.Class("buffer-too-small-by-1-to-6-bytes:refused-calls-then-Finalize")
				}
				r.Check(t, "rapid", c, func() error { return c06Check(c) })
				// classify with the model
				m := asmcat.NewModel(1<<30, false, false)
				refs := 0
				defined := map[string]bool{}
				for _, o := range c.Ops {
					if o.Kind == "ins" && o.Label != "" {
						refs++
						if defined[o.Label] {
							ev.Class("ref/backward")
						} else {
							ev.Class("ref/forward-or-missing")
						}
						if o.Method == "JMP_abs" {
							ev.Class("ref/jump")
						}
					}
					if o.Kind == "label" {
						if defined[o.Label] {
							ev.Class("label/duplicate-definition")
						}
						defined[o.Label] = true
					}
					m.Apply(o)
				}
				out := m.Finalize()
				if refs > 0 {
					if out.OK {
						ev.Class("finalize/success")
					}
					if len(out.Missing) > 0 {
						ev.Class("finalize/missing-label")
					}
					if len(out.TooFar) > 0 {
						ev.Class("finalize/out-of-range")
					}
					for _, rf := range m.Refs {
						if addr, ok := m.Labels[rf.Label]; ok && !rf.Wide {
							switch d := int(addr) - int(rf.OpAddr+1); d {
							case 127, -128:
								ev.Class(fmt.Sprintf("distance/%d(in-range edge)", d))
							case 128, -129:
								ev.Class(fmt.Sprintf("distance/%d(out-of-range edge)", d))
							}
						}
					}
					if m.Base != 0 {
						ev.Class("non-zero-base")
					}
				}
				raw, _ := json.Marshal(c)
				ev.Case(refs > 0, rig.Hash64(raw), func() interface{} { return c })
			})
			ev.Assumption("which failing reference Finalize names when several fail, and which references it patched before failing, are left open (map iteration order)")
		})
}
