package props

import (
	"bytes"
	"encoding/json"
	"fmt"
	"reflect"
	"sync"
	"sync/atomic"
	"testing"

	"github.com/alttpo/snes/asm"
	"pgregory.net/rapid"

	"verif/harness/asmcat"
	"verif/harness/rig"
	"verif/harness/wdc"
)

// C03 — every Emitter instruction method emits the canonical 65816 machine encoding.

type c03Case struct {
	Method string      `json:"method"`
	Flags  byte        `json:"flags"` // tracker state set up with AssumeSEP
	Base   uint32      `json:"base"`  // 0 = no SetBase
	Prefix []asmcat.Op `json:"prefix"`
	V      uint32      `json:"v"`
	CPU    bool        `json:"cpu"` // also run the library's own CPUs on the bytes
	// Rebase != 0: SetBase is called again after the prefix (a second routine, assembled for another address,
	// stored right behind the first)
	Rebase uint32 `json:"rebase,omitempty"`
}

func c03NewEmitter(c c03Case, size int) (*asm.Emitter, error) {
	buf := make([]byte, size)
	for i := range buf {
		buf[i] = 0xC3 // the target is not blank (an image being patched): bytes behind the emitted ones must stay as they are
	}
	em := asm.NewEmitter(buf, false)
	if c.Base != 0 {
		em.SetBase(c.Base)
	}
	for _, op := range c.Prefix {
		if _, p := asmcat.ApplyReal(em, op); p != nil {
			return nil, fmt.Errorf("prefix op %v refused: %v", op, p)
		}
	}
	if c.Rebase != 0 {
		em.SetBase(c.Rebase)
		if em.PC() != c.Rebase {
			return nil, fmt.Errorf("after SetBase($%06x) behind %d emitted bytes PC() = $%06x", c.Rebase, em.Len(), em.PC())
		}
	}
	em.AssumeSEP(asm.Flags(c.Flags))
	return em, nil
}

// c03One checks one emitting call on em (already prepared) and returns the emitted bytes.
func c03One(em *asm.Emitter, m asmcat.Method, v uint32) ([]byte, error) {
	return c03OneX(em, m, v, false, reflect.Value{})
}

// c03OneX with cheap=true skips the copy of the earlier bytes (the sweep compares whole batches instead).
func c03OneX(em *asm.Emitter, m asmcat.Method, v uint32, cheap bool, mv reflect.Value) ([]byte, error) {
	if !mv.IsValid() {
		mv = reflect.ValueOf(em).MethodByName(m.Name)
	}
	var before []byte
	if cheap {
		before = em.Bytes()
	} else {
		before = append([]byte(nil), em.Bytes()...)
	}
	len0, pc0 := em.Len(), em.PC()
	flags := byte(em.Flags())
	var pan interface{}
	func() {
		defer func() { pan = recover() }()
		mv.Call(m.Args(v, "lbl"))
	}()
	if pan != nil {
		return nil, fmt.Errorf("%s($%x) under tracked flags %02x panicked although the method is legal there: %v", m.Name, v, flags, pan)
	}
	want := m.Encode(v)
	got := em.Bytes()
	if len(got) != len(before)+len(want) || (!cheap && !bytes.Equal(got[:len(before)], before)) {
		return nil, fmt.Errorf("%s($%x): Bytes() went from %d to %d bytes (earlier bytes intact: %v), the instruction is %d bytes", m.Name, v, len(before), len(got), len(got) >= len(before) && bytes.Equal(got[:len(before)], before), len(want))
	}
	// "appends exactly the bytes": the part of the target behind the instruction is untouched
	for full, i := got[:cap(got)], len(got); i < len(full) && i < len(got)+8; i++ {
		if full[i] != 0xC3 {
			return nil, fmt.Errorf("%s($%x): the target byte %d behind the emitted instruction (offset %d) changed from c3 to %02x", m.Name, v, i-len(got), i, full[i])
		}
	}
	// the tracked widths and flags change only as REP/SEP say
	{
		mm := asmcat.NewModel(1<<30, false, false)
		mm.Flags = flags
		mm.Apply(asmcat.Op{Kind: "ins", Method: m.Name, V: v, Label: "lbl"})
		if byte(em.Flags()) != mm.Flags {
			return nil, fmt.Errorf("%s($%x) under tracked flags %02x: the emitter now tracks %02x, want %02x", m.Name, v, flags, byte(em.Flags()), mm.Flags)
		}
	}
	emitted := got[len(before):]
	if !bytes.Equal(emitted, want) {
		return nil, fmt.Errorf("%s($%x) emitted [% x], the 65816 encoding of %s %s is [% x]", m.Name, v, emitted, m.Mn, wdc.ModeName[m.Md], want)
	}
	// REP/SEP change the tracker before emitting; lengths are judged under the widths in force for this instruction
	m8, x8 := flags&0x20 != 0, flags&0x10 != 0
	il := wdc.InsLen(want[0], m8, x8)
	if il != len(want) {
		return nil, fmt.Errorf("%s under tracked flags %02x: emitted %d bytes but the architectural length of opcode %02x with m8=%v x8=%v is %d", m.Name, flags, len(want), want[0], m8, x8, il)
	}
	if em.Len() != len0+il || em.PC() != pc0+uint32(il) {
		return nil, fmt.Errorf("%s($%x): Len %d->%d, PC $%06x->$%06x, want both advanced by %d", m.Name, v, len0, em.Len(), pc0, em.PC(), il)
	}
	var pad [4]byte
	copy(pad[:], emitted)
	d := wdc.Decode(pad[:], m8, x8)
	wantOperand := uint32(0)
	for i := 1; i < len(want); i++ {
		wantOperand |= uint32(want[i]) << (8 * uint(i-1))
	}
	if d.Mn != m.Mn || d.Md != m.Md || d.Len != len(want) || d.Operand != wantOperand {
		return nil, fmt.Errorf("%s($%x): independent decoder reads [% x] as %s %s operand $%x (%d bytes)", m.Name, v, emitted, d.Mn, wdc.ModeName[d.Md], d.Operand, d.Len)
	}
	return emitted, nil
}

// c03CPU runs the library's own CPUs on the emitted bytes: same decoding, same length.
var c03CPUMu sync.Mutex

func c03CPU(m asmcat.Method, code []byte, flags byte, v uint32) error {
	c03CPUMu.Lock() // the CPU singletons are shared by the sweep's workers
	defer c03CPUMu.Unlock()
	pri, alt := cpus()
	m8, x8 := flags&0x20 != 0, flags&0x10 != 0
	for _, cpu := range []rig.CPU{pri, alt} {
		mem := rig.NewMem(0xC03)
		cpu.SetMem(mem)
		st := wdc.Arch{A: 0, X: 0x0011, Y: 0x0022, S: 0x01F0, D: 0x0000, PC: 0x8000, DBR: 0x7E, K: 0x01, P: flags & 0x30}
		for i, b := range code {
			mem.Poke(0x018000+uint32(i), b)
		}
		for i := len(code); i < 6; i++ {
			mem.Poke(0x018000+uint32(i), 0xEA)
		}
		cpu.Load(st)
		if cpu.Name() == "cpu65c816" {
			tl, err := parsePrimary(cpu.Disasm())
			if err != nil {
				return fmt.Errorf("%s: %v", m.Name, err)
			}
			if err := c14Judge(tl, st, mem, false); err != nil {
				return fmt.Errorf("%s($%x): the library's disassembler disagrees: %v", m.Name, v, err)
			}
		}
		_, _, p := cpu.Step()
		if p != nil {
			return fmt.Errorf("%s($%x): %s Step panicked on the emitted bytes: %v", m.Name, v, cpu.Name(), p)
		}
		after := cpu.Arch()
		next := uint16(0x8000 + len(code))
		pushed16 := func() uint16 { return uint16(mem.Peek(uint32(after.S+1))) | uint16(mem.Peek(uint32(after.S+2)))<<8 }
		switch {
		case m.Mn == "jsr":
			if after.PC != uint16(v) || after.K != 1 || pushed16() != next-1 {
				return fmt.Errorf("%s($%x): %s went to %02x:%04x and pushed $%04x, want 01:%04x and $%04x", m.Name, v, cpu.Name(), after.K, after.PC, pushed16(), uint16(v), next-1)
			}
		case m.Mn == "jsl":
			if after.PC != uint16(v) || after.K != byte(v>>16) || pushed16() != next-1 || mem.Peek(uint32(after.S+3)) != 1 {
				return fmt.Errorf("%s($%x): %s went to %02x:%04x, pushed $%04x bank %02x", m.Name, v, cpu.Name(), after.K, after.PC, pushed16(), mem.Peek(uint32(after.S+3)))
			}
		case m.Mn == "jmp" && m.Md == wdc.MLong:
			if after.PC != uint16(v) || after.K != byte(v>>16) {
				return fmt.Errorf("%s($%x): %s went to %02x:%04x", m.Name, v, cpu.Name(), after.K, after.PC)
			}
		case m.Mn == "jmp" && m.Md == wdc.MAbs && m.Shape == asmcat.U16:
			if after.PC != uint16(v) || after.K != 1 {
				return fmt.Errorf("%s($%x): %s went to %02x:%04x", m.Name, v, cpu.Name(), after.K, after.PC)
			}
		case m.Mn == "jmp" && m.Md == wdc.MAbsInd:
			want := uint16(mem.Peek(uint32(uint16(v)))) | uint16(mem.Peek(uint32(uint16(v)+1)))<<8
			if after.PC != want {
				return fmt.Errorf("%s($%x): %s went to %04x, the pointer at $00%04x holds %04x", m.Name, v, cpu.Name(), after.PC, uint16(v), want)
			}
		case m.Mn == "jmp", m.Mn == "rts", m.Mn == "rtl", m.Mn == "rti":
			// label placeholder / returns: target comes from elsewhere
		case m.Md == wdc.MRel8:
			disp := code[1]
			taken := next + uint16(int16(int8(disp)))
			if after.PC != next && after.PC != taken {
				return fmt.Errorf("%s($%x): %s went to %04x, neither fall-through %04x nor branch target %04x", m.Name, v, cpu.Name(), after.PC, next, taken)
			}
		case m.Mn == "mvn":
			// A=0: exactly one byte moves and the instruction completes
			if after.PC != next || after.DBR != byte(v) {
				return fmt.Errorf("%s($%x): %s ended at %04x with DBR=%02x, want %04x and destination bank %02x", m.Name, v, cpu.Name(), after.PC, after.DBR, next, byte(v))
			}
		default:
			if after.PC != next || after.K != 1 {
				return fmt.Errorf("%s($%x) under m8=%v x8=%v: %s consumed %d bytes (PC %04x), the emitter produced %d", m.Name, v, m8, x8, cpu.Name(), int(after.PC)-0x8000, after.PC, len(code))
			}
		}
	}
	return nil
}

func c03Check(c c03Case) error {
	m, ok := asmcat.Lookup(c.Method)
	if !ok {
		return fmt.Errorf("unknown method %q", c.Method)
	}
	em, err := c03NewEmitter(c, needOf(c.Prefix)+64)
	if err != nil {
		return err
	}
	flags := byte(em.Flags())
	if !m.GuardOK(flags) {
		return nil
	}
	code, err := c03One(em, m, c.V)
	if err != nil {
		return err
	}
	if c.CPU {
		return c03CPU(m, code, flags, c.V)
	}
	return nil
}

func init() {
	rig.RegisterReplay("C03", func(data []byte) error {
		var rf rig.ReplayFile
		if err := json.Unmarshal(data, &rf); err != nil {
			return err
		}
		var c c03Case
		if err := json.Unmarshal(rf.Case, &c); err != nil {
			return err
		}
		return c03Check(c)
	})
}

func TestC03(t *testing.T) {
	rig.Main(t, "C03", "for every catalogued Emitter method x every tracker state in which it is legal x base address {none, $018000, $7E1000}: complete sweep of all 2^8 / 2^16 operand "+
		"values (24-bit operands: all 2^24 values under one tracker state and no base, edge set + stride-4099 sweep under the other states/bases; thorough adds a second complete state); emitted bytes compared with [opcode from the independent WDC matrix, operand little-endian], "+
		"Len/PC advance with the architectural length under the tracked widths, an independent decoder reads the same mnemonic/mode/operand back; for all 8-bit values, a stride of 16/24-bit values "+
		"and edge values the library's own disassembler and both CPUs' Step() must agree on decoding and length.  Distinct = (method, tracker state, base, operand); every accepted call is non-trivial.",
		func(r *rig.Run) {
			ev := r.Ev
			extra, missing := asmcat.Uncatalogued()
			ev.Extra["const_methods_catalogued"] = len(asmcat.Catalogue)
			ev.Extra["const_methods_uncatalogued"] = extra
			if len(missing) > 0 {
				r.Infra("catalogue names methods the Emitter does not have: %v", missing)
			}
			states := []byte{0x00, 0x10, 0x20, 0x30, 0xFF, 0xCF}
			bases := []uint32{0, 0x018000, 0x7E1000}
			prefix := []asmcat.Op{{Kind: "ins", Method: "NOP"}, {Kind: "ins", Method: "STA_abs", V: 0x1234}}
			type job struct {
				m           asmcat.Method
				flags       byte
				base        uint32
				part, parts int // complete 24-bit sweeps are split into parts
			}
			var jobs []job
			for _, m := range asmcat.Catalogue {
				for _, f := range states {
					if !m.GuardOK(f) {
						continue
					}
					for _, b := range bases {
						if m.OperandBytes() == 3 && b == 0 && (f == 0x30 || (rig.Thorough() && f == 0x00)) {
							for p := 0; p < 16; p++ {
								jobs = append(jobs, job{m, f, b, p, 16})
							}
							continue
						}
						jobs = append(jobs, job{m, f, b, 0, 1})
					}
				}
			}
			var total, cpuChecked int64
			var mf rig.MinFail
			rig.ParChunks(uint64(len(jobs)), 1, func(lo, hi uint64) {
				for ji := lo; ji < hi && !mf.Failed(); ji++ {
					j := jobs[ji]
					// operand domain as (count, i -> value): never materialised
					edge24 := []uint32{0xffffff, 0xff0000, 0x00ffff, 0x010000, 0x7effff, 0x800000, 0xfffffe, 0x000001}
					nvals, at := 1, func(i int) uint32 { return 0 }
					switch j.m.OperandBytes() {
					case 1:
						nvals, at = 256, func(i int) uint32 { return uint32(i) }
					case 2:
						if j.m.Shape != asmcat.Label16 {
							nvals, at = 65536, func(i int) uint32 { return uint32(i) }
						}
					case 3:
						full := j.base == 0 && (j.flags == 0x30 || (rig.Thorough() && j.flags == 0x00))
						if full {
							nvals, at = 1<<24, func(i int) uint32 { return uint32(i) }
						} else {
							ns := (1<<24 + 4098) / 4099
							nvals, at = ns+len(edge24), func(i int) uint32 {
								if i < ns {
									return uint32(i) * 4099
								}
								return edge24[i-ns]
							}
						}
					}
					var pfx []asmcat.Op
					if ji%2 == 1 {
						pfx = prefix
					}
					c := c03Case{Method: j.m.Name, Flags: j.flags, Base: j.base, Prefix: pfx}
					var em *asm.Emitter
					var exp []byte
					var mv reflect.Value
					left := 0
					lo, hi := 0, nvals
					if j.parts > 1 {
						lo, hi = nvals/j.parts*j.part, nvals/j.parts*(j.part+1)
					}
					for vi := lo; vi < hi; vi++ {
						v := at(vi)
						if left == 0 {
							if em != nil && !bytes.Equal(em.Bytes(), exp) {
								mf.Report(ji<<32|uint64(v), fmt.Errorf("%s: bytes emitted earlier in the batch were modified by a later call (before value $%x)", j.m.Name, v), c)
								return
							}
							var err error
							if em, err = c03NewEmitter(c, 1100); err != nil {
								mf.Report(ji<<32, err, c)
								return
							}
							exp = append(exp[:0], em.Bytes()...)
							mv = reflect.ValueOf(em).MethodByName(j.m.Name)
							left = 256
						}
						left--
						code, err := c03OneX(em, j.m, v, true, mv)
						exp = append(exp, code...)
						cpuToo := j.m.OperandBytes() <= 1 || vi%251 == 0 || vi >= nvals-8
						if err == nil && cpuToo {
							err = c03CPU(j.m, code, byte(em.Flags()), v)
							atomic.AddInt64(&cpuChecked, 1)
						}
						if err != nil {
							cc := c
							cc.V, cc.CPU = v, true
							// confirm with the single-call form (fresh emitter) so the replay stands alone
							if e2 := rig.Safe(func() error { return c03Check(cc) }); e2 != nil {
								err = e2
							}
							mf.Report(ji<<32|uint64(v), err, cc)
							return
						}
					}
					if em != nil && !mf.Failed() && !bytes.Equal(em.Bytes(), exp) {
						mf.Report(ji<<32, fmt.Errorf("%s: bytes emitted earlier in the batch were modified by a later call", j.m.Name), c)
						return
					}
					atomic.AddInt64(&total, int64(hi-lo))
				}
			})
			if mf.Failed() {
				_, err, d := mf.Get()
				r.Violation("sweep", d, err)
			}
			ev.Bulk(total, total)
			ev.Extra["emits_also_run_on_both_cpus_and_disassembler"] = cpuChecked
			ev.Extra["const_method_state_base_jobs"] = len(jobs)
			ev.Sample(c03Case{Method: "MVN", Flags: 0x30, Base: 0x018000, V: 0x7e7f, CPU: true})
			ev.Sample(c03Case{Method: "LDA_long_x", Flags: 0x00, V: 0xfffffe, CPU: true})
			if rig.Thorough() {
				ev.Extra["const_24bit_operands"] = "all 2^24 values for the 8 long methods under two tracker states"
			}
			// rapid: random prefixes / bases / states, shrinks to a small reproduction
			r.Rapid("rapid", rig.Pick(20000, 200000), func(t *rapid.T) {
				m := asmcat.Catalogue[rapid.IntRange(0, len(asmcat.Catalogue)-1).Draw(t, "method")]
				c := c03Case{Method: m.Name, Flags: rapid.Byte().Draw(t, "flags"), CPU: true}
				if rapid.Bool().Draw(t, "with-base") {
					c.Base = rapid.Uint32Range(1, 0xff0000).Draw(t, "base")
					if rapid.IntRange(0, 3).Draw(t, "base-at-bank-end") == 0 {
						// the instruction ends at, or runs across, the last byte of a bank: PC() still advances by its length
						c.Base = uint32(rapid.IntRange(0, 0xFE).Draw(t, "base-bank"))<<16 | uint32(0x10000-rapid.IntRange(1, 8).Draw(t, "below-bank-end"))
						ev.Class("base-within-8-bytes-of-a-bank-end")
					}
				}
				c.Prefix = asmcat.GenHistory(t, asmcat.GenOpts{MaxOps: 3, Data: true, Assume: true})
				c.V = rapid.Uint32Range(0, 0xffffff).Draw(t, "v")
				if rapid.IntRange(0, 3).Draw(t, "rebase") == 0 {
					c.Rebase = rapid.Uint32Range(1, 0xff0000).Draw(t, "rebase-to")
					if needOf(c.Prefix) > 0 {
						ev.Class("SetBase-called-again-after-bytes-were-emitted")
					}
				}
				r.Check(t, "rapid", c, func() error { return c03Check(c) })
				raw, _ := json.Marshal(c)
				ev.Case(true, rig.Hash64(raw), func() interface{} { return c })
			})
			ev.Assumption("the method catalogue (harness/asmcat) is derived from the method names; the opcode byte is never in it but looked up in the independent WDC matrix (harness/wdc)")
		})
}
