# Data for mkmanifest.py: which properties are claimed, with what technique and level text.
ENGINES = [
    {"name": "rapid-prop", "path": "harness/props", "kind_free_text": "pgregory.net/rapid v1.3.0 generators -> pure check(Case); stateless or state-machine; shrinks; failing case serialised as replay JSON",
     "serves_properties": []},
    {"name": "sweep", "path": "harness/props", "kind_free_text": "the same check(Case) driven by complete enumeration of a finite domain on all cores; first failing point in enumeration order is the minimal reproduction",
     "serves_properties": []},
    {"name": "lockstep", "path": "harness/rig, harness/wdc", "kind_free_text": "primary CPU, alternative CPU and an independent WDC 65C816 reference model stepped together over identical sparse memories with just-in-time, edge-solving instruction synthesis",
     "serves_properties": []},
    {"name": "race-rig", "path": "harness/props", "kind_free_text": "seed-determined workloads run sequentially then concurrently under the Go race detector; digests compared",
     "serves_properties": []},
]
NOTES = ("All checks are property-based tests / enumerations written in Go (pgregory.net/rapid v1.3.0) in /verif/harness, driven by /verif/check. "
         "Every check rebuilds the harness against /repo's working tree (replace => /repo). VERIF_SEED selects the rapid seeds. "
         "Exit 2 means no verdict (build failure, timeout, short run). known_findings.json is read-only at run time.")
NOT_CLAIMED = {}

claim("C17", "sweep",
      "exhaustive enumeration + rapid sampling against an arithmetic reference",
      "All 2^16 colours (pack/unpack, luminosity) and all 2^24 channel triples are enumerated; MulDiv is compared with min(31,floor(ch*m/d)) for every single-channel colour x all 256x255 ratios in quick and for all 2^16 colours x 256 x 255 in thorough (exhaustive), with identity / monotonicity / bit-15 relations checked independently of the reference. For a pure function on a finite domain complete enumeration is as strong as testing gets.",
      "Trusted: the 32-bit reference arithmetic in the harness (10 lines) transcribed from the property statement; divisor 0 is outside the domain.",
      "DESIGN.md section 3 C17")
claim("C04", "sweep",
      "exhaustive enumeration of both address spaces with a round-trip oracle, plus rapid sampling",
      "For each of the 4 mappers all 2^24 bus addresses are pushed through bus->pak->bus->pak (must return to the same pak cell) and all 2^24 pak addresses through pak->bus->pak (must stay in the same memory class at the same offset in its 8 KiB page). The domain is finite and is enumerated completely on every run, so within the stated reading of 'class' and 'page' the verdict is exact.",
      "Trusted: class windows as given in the property statement (WRAM mirrors $F70000+ count as WRAM).",
      "DESIGN.md section 3 C04")
claim("C05", "sweep",
      "exhaustive enumeration against a window/error contract, table-free page-structure relations and a transcribed region table",
      "All 2^24 bus and 2^24 pak addresses x 4 mappers are checked for: unmapped error identity and zero result, exactly-one class window, rejection of exactly $F00000-$F4FFFF, the console-owned regions common to all mappers, whole-8-KiB-page structure with preserved byte order in both directions, and agreement of class and linear position with a per-mapper region table transcribed as data from the documented layout. Complete enumeration of a finite domain.",
      "Trusted: the hand-transcribed region tables (they agreed with the unchanged tree on all 4 x 2^24 addresses, which cross-validates the transcription).",
      "DESIGN.md section 3 C05")
for e in ENGINES:
    e["serves_properties"] = sorted(k for k, v in CLAIMED.items() if v["engine"] == e["name"])
