# Data for mkmanifest.py: which properties are claimed, with what technique and level text.
ENGINES = [
    {"name": "rapid-prop", "path": "harness/props", "kind_free_text": "pgregory.net/rapid v1.3.0 generators -> pure check(Case); stateless or state-machine; shrinks; failing case serialised as replay JSON",
     "serves_properties": []},
    {"name": "sweep", "path": "harness/props", "kind_free_text": "the same check(Case) driven by complete enumeration of a finite domain on all cores; first failing point in enumeration order is the minimal reproduction",
     "serves_properties": []},
    {"name": "lockstep", "path": "harness/rig, harness/wdc", "kind_free_text": "primary CPU, alternative CPU and an independent WDC 65C816 reference model stepped together over identical sparse memories with just-in-time, edge-solving instruction synthesis",
     "serves_properties": []},
    {"name": "race-rig", "path": "harness/props", "kind_free_text": "seed-determined workloads run sequentially then concurrently under the Go race detector; digests compared",
     "serves_properties": []},
]
NOTES = ("All checks are property-based tests / enumerations written in Go (pgregory.net/rapid v1.3.0) in /verif/harness, driven by /verif/check. "
         "Every check rebuilds the harness against /repo's working tree (replace => /repo). VERIF_SEED selects the rapid seeds. "
         "Exit 2 means no verdict (build failure, timeout, short run). known_findings.json is read-only at run time.")
NOT_CLAIMED = {}

claim("C17", "sweep",
      "exhaustive enumeration + rapid sampling against an arithmetic reference",
      "All 2^16 colours (pack/unpack, luminosity) and all 2^24 channel triples are enumerated; MulDiv is compared with min(31,floor(ch*m/d)) for every single-channel colour x all 256x255 ratios in quick and for all 2^16 colours x 256 x 255 in thorough (exhaustive), with identity / monotonicity / bit-15 relations checked independently of the reference. For a pure function on a finite domain complete enumeration is as strong as testing gets.",
      "Trusted: the 32-bit reference arithmetic in the harness (10 lines) transcribed from the property statement; divisor 0 is outside the domain.",
      "DESIGN.md section 3 C17")
for e in ENGINES:
    e["serves_properties"] = sorted(k for k, v in CLAIMED.items() if v["engine"] == e["name"])
