# Data for mkmanifest.py: which properties are claimed, with what technique and level text.
ENGINES = [
    {"name": "rapid-prop", "path": "harness/props", "kind_free_text": "pgregory.net/rapid v1.3.0 generators -> pure check(Case); stateless or state-machine; shrinks; failing case serialised as replay JSON",
     "serves_properties": []},
    {"name": "sweep", "path": "harness/props", "kind_free_text": "the same check(Case) driven by complete enumeration of a finite domain on all cores; first failing point in enumeration order is the minimal reproduction",
     "serves_properties": []},
    {"name": "lockstep", "path": "harness/rig, harness/wdc", "kind_free_text": "primary CPU, alternative CPU and an independent WDC 65C816 reference model stepped together over identical sparse memories with just-in-time, edge-solving instruction synthesis",
     "serves_properties": []},
    {"name": "race-rig", "path": "harness/props", "kind_free_text": "seed-determined workloads run sequentially then concurrently under the Go race detector; digests compared",
     "serves_properties": []},
]
NOTES = ("All checks are property-based tests / enumerations written in Go (pgregory.net/rapid v1.3.0) in /verif/harness, driven by /verif/check. "
         "Every check rebuilds the harness against /repo's working tree (replace => /repo). VERIF_SEED selects the rapid seeds. "
         "Exit 2 means no verdict (build failure, timeout, short run). known_findings.json is read-only at run time.")
NOT_CLAIMED = {}

claim("C17", "sweep",
      "exhaustive enumeration + rapid sampling against an arithmetic reference",
      "All 2^16 colours (pack/unpack, luminosity) and all 2^24 channel triples are enumerated; MulDiv is compared with min(31,floor(ch*m/d)) for every single-channel colour x all 256x255 ratios in quick and for all 2^16 colours x 256 x 255 in thorough (exhaustive), with identity / monotonicity / bit-15 relations checked independently of the reference. For a pure function on a finite domain complete enumeration is as strong as testing gets.",
      "Trusted: the 32-bit reference arithmetic in the harness (10 lines) transcribed from the property statement; divisor 0 is outside the domain.",
      "DESIGN.md section 3 C17")
claim("C04", "sweep",
      "exhaustive enumeration of both address spaces with a round-trip oracle, plus rapid sampling",
      "For each of the 4 mappers all 2^24 bus addresses are pushed through bus->pak->bus->pak (must return to the same pak cell) and all 2^24 pak addresses through pak->bus->pak (must stay in the same memory class at the same offset in its 8 KiB page). A second process repeats the sweep with the mappers and directions in reverse order (the functions are stateless: no answer may depend on which was called first). The domain is finite and is enumerated completely on every run, so within the stated reading of 'class' and 'page' the verdict is exact.",
      "Trusted: class windows as given in the property statement (WRAM mirrors $F70000+ count as WRAM).",
      "DESIGN.md section 3 C04")
claim("C05", "sweep",
      "exhaustive enumeration against a window/error contract, table-free page-structure relations and a transcribed region table",
      "All 2^24 bus and 2^24 pak addresses x 4 mappers are checked for: unmapped error identity and zero result, exactly-one class window, rejection of exactly $F00000-$F4FFFF, the console-owned regions common to all mappers, whole-8-KiB-page structure with preserved byte order in both directions, and agreement of class and linear position with a per-mapper region table transcribed as data from the documented layout. Complete enumeration of a finite domain.",
      "Trusted: the hand-transcribed region tables (they agreed with the unchanged tree on all 4 x 2^24 addresses, which cross-validates the transcription).",
      "DESIGN.md section 3 C05")
claim("C09", "rapid-prop",
      "property-based round-trip + independent offset table + single-byte metamorphic relation (rapid)",
      "Random 80-byte headers (versions 1/2/3 each forced about a third of the time) inside images of 1-8 banks are parsed and written back (image must be byte-identical), serialised and re-parsed (DeepEqual), compared field by field (via reflection by field name) with a hand-typed table of documented cartridge addresses, and perturbed in one drawn byte (exactly the covering field may change); all 80 byte positions are also flipped systematically on one header per version. Sampling of a 2^640 space: strong against layout/order/endianness slips, blind to a defect tied to one specific byte value.",
      "Trusted: the offset table in the harness (from the rom:\"FFxx\" tags and the SNES header documentation). Image bytes outside the header come from a fixed pseudo-random base image.",
      "DESIGN.md section 3 C09")
claim("C10", "rapid-prop",
      "model-based stateful property test (rapid) against a reference window model with a known-finding quirk variant",
      "Histories of writes (lengths solved to end 2/1 before, at, and 1-3 beyond the bank end), writer re-opens and reads with varied buffer sizes are run against ROM.BusWriter/BusReader and a reference window model; the whole image is compared after every call. The listed known finding (window one byte short) is accepted only when the implementation equals the reference with the window shortened by exactly one byte.",
      "Trusted: the reference model (60 lines). The writer's position after a failed write is treated as unspecified. Known finding rom-window-last-byte is matched by the quirk variant only.",
      "DESIGN.md section 3 C10")
claim("C11", "sweep",
      "exhaustive differential enumeration: emulator bus versus lorom mapper on seed-defined array contents",
      "All 2^24 bus addresses are read and written through emulator.System's bus; inside the console's documented layout the byte read / the cell changed must be the one lorom.BusAddressToPak designates, outside it any array change must coincide with the mapper's cell; ROM/WRAM/SRAM are compared with golden copies after every bank (1 content seed quick, 4 thorough). Complete over addresses; contents are sampled.",
      "Trusted: the console layout T taken from the property statement; array contents are a pure function of the seed.",
      "DESIGN.md section 3 C11")
claim("C13", "rapid-prop",
      "model-based stateful property test (rapid): owner-per-block model, recording memories, sentinel/canary dump buffers",
      "Random op lists (aligned Attach over overlapping/abutting/nested ranges, misaligned Attach, reads, writes, EaDump at any alignment across memories and holes) run on a fresh Bus with recording stubs; every access must reach exactly the model's owner with the full address, unattached accesses must panic, rejected Attach must not change routing, EaDump must equal byte-wise reads and leave unattached positions and the canary untouched.",
      "Trusted: the interval model of ownership. Histories are bounded (25 ops quick, 60 thorough) and ranges lie around three anchors.",
      "DESIGN.md section 3 C13")
claim("C01", "lockstep",
      "model-based lockstep property test (rapid): both interpreters against an independent WDC 65C816 reference model, just-in-time edge-solving program synthesis",
      "Generated native-mode programs (edge-biased state, all 256 opcodes x M x X hit >100 times per quick run, operands/pointers/index sums solved onto page, bank and 24-bit edges, width switches and block moves over-represented) run in lockstep on cpu65c816, cpualt and a reference model written from the WDC documentation; after every step the full architectural state and every written memory byte are compared. Sampling of a >2^100 state space: every opcode/width cell and boundary class is reached, a deviation confined to one magic operand value inside a class can be missed, and an error shared by the model and both interpreters is invisible.",
      "Trusted: harness/wdc (opcode matrix + reference model, ~900 lines). Not judged: V after decimal arithmetic, A/N/Z/C after decimal arithmetic on non-BCD operands, results depending on bus-cycle order inside one instruction (program ends there), emulation mode.",
      "DESIGN.md section 3 C01")
claim("C02", "lockstep",
      "differential stateful property test (rapid): cpu65c816 versus cpualt on identical raw state, memory and action sequence",
      "State machines over the pair of interpreters loaded from the same raw register file (E=0/1, D=0/1, any widths, stale non-authoritative copies 30%) with actions step (JIT edge-solving synthesis, all opcodes), IRQ, NMI, Reset; after every action Step() results, Cycles, AllCycles, architectural view, flags, PPC/PRK, pending interrupt and memory must agree; exactly one interpreter panicking is a violation. No model is trusted here: the oracle is the other implementation.",
      "Both interpreters wrong in the same way is invisible to this check (C01 covers native mode against a model).",
      "DESIGN.md section 3 C02")
claim("C08", "lockstep",
      "property-based crash/address-range test (rapid) with generators pinned to the top of the 24-bit space, plus model lockstep in native mode",
      "Programs whose data bank, long operands, [dp] pointers and index sums are solved to reach $FFFFFF, overflow 24 bits or straddle $FFFFFF/$000000 are executed on both interpreters over a fully mapped recording memory: no Step may panic, no bus address may be >= 2^24, and in native mode the access must land where the WDC model says (EA mod 2^24). About 9% of all executed steps are top-of-memory steps, for every opcode that has such a mode, reads and writes, native and emulation mode.",
      "Trusted: the recording memory sees every address the bus hands out; harness/wdc for the native-mode placement. A crash needing a specific non-edge operand value could be missed.",
      "DESIGN.md section 3 C08")
claim("C12", "sweep",
      "exhaustive enumeration of the cycle-cell grid + model-based property test (rapid) of RunUntil against its specification loop",
      "Part A enumerates every opcode x {E=1; E=0 x M x X} x DL x index page-cross x branch outcome x displacement x PC position on both interpreters (133k cells): cycles >= 1, == CPU.Cycles, AllCycles accounting, stop flag. Parts B-D run JIT-synthesised programs on emulator.System and compare RunUntil(target,max) for targets on/off the path and budgets 0/1/exact-1/exact/exact+1/large with the loop 'while cycles<max and PC!=target: Step' executed on a twin CPU, count OnPC/OnWDM/Logger.Write invocations (WDM operands taken from memory, not from the CPU) and exercise STP/Reset; a 30 s watchdog turns a hang into a violation.",
      "Termination is reduced to 'every Step reports >= 1 cycle' (enumerated over the grid, not over all register values) plus sampled runs. cpualt offers no working OnPC (dead field): only its OnWDM is checked.",
      "DESIGN.md section 3 C12")
claim("C14", "lockstep",
      "differential (with/without tracing) property test (rapid) + trace-line parsing against an independent decoder",
      "Generated programs run on emulator.System with and without a recording Logger and on cpualt with and without DisassembleCurrentPC before each step: final registers, flags, cycle totals and memory must be equal; every trace line is parsed (both formats) and its address, byte list for the current widths, mnemonic, canonical operand rendering, branch destination, register values in the selected width and flag letters are compared with harness/wdc's decoder.",
      "Trusted: harness/wdc decoder/renderer; cosmetic differences (blanks, '$', 'Sn') are normalised; BRK may be listed with 1 or 2 bytes. The whole bus is mapped, so cpualt's open-bus latch is not observable.",
      "DESIGN.md section 3 C14")
claim("C03", "sweep",
      "exhaustive operand sweeps per method against an independent opcode matrix and decoder, cross-checked on the library's own CPUs; plus rapid",
      "For every catalogued Emitter method x every tracker state in which it is legal x three base settings, all 2^8 / 2^16 operand values (24-bit: all 2^24 under one state, stride+edges elsewhere; thorough adds a second complete state) are emitted and compared with [opcode from harness/wdc's matrix, little-endian operand]; Len/PC must advance by the architectural length under the tracked widths; an independent decoder must read the same instruction back; for ~450k of the emits the library's disassembler and both CPUs' Step() must agree on decoding, length and (for transfers) target / pushed return address. Complete over operands, only as complete as the method catalogue (uncatalogued methods are listed in the evidence).",
      "Trusted: harness/wdc opcode matrix and harness/asmcat catalogue (method name -> mnemonic, mode, operand shape).",
      "DESIGN.md section 3 C03")
claim("C06", "rapid-prop",
      "model-based property test (rapid) of emitter histories with distance-solving generators; executable emitter model as oracle",
      "Histories of instructions, data, labels (pool of 8), forward/backward/multiple/missing references, absolute jumps, duplicate definitions and an optional base run on a real emitter and on harness/asmcat's model; branch distances are solved to -129/-128/-127/+126/+127/+128. Finalize's verdict (success iff all labels defined and all rel8 in range), every patched byte, the content of the error (must name a really unresolved label or a really out-of-range branch with its origin/target/distance) and the set of bytes a failing Finalize may touch (only operand bytes, placeholder or correct patch) are checked; Finalize is called twice. Bounded histories (40 ops quick, 120 thorough).",
      "Trusted: harness/asmcat model. Which failing reference is named and how much was patched before a failure are left open (map order).",
      "DESIGN.md section 3 C06")
claim("C07", "lockstep",
      "property test (rapid) coupling the emitter with both CPUs: fetch addresses versus Emitter.PC(), plus the complete guard grid",
      "Straight-line histories from the catalogue (no taken transfers, no PLP/RTI, branches with displacement 0, arbitrary REP/SEP masks, truthful Assume calls, refused wrong-width immediates interleaved) are emitted, loaded at their base and executed on cpu65c816 and cpualt starting with the assumed widths; the sequence of opcode-fetch addresses must equal the Emitter.PC() values recorded before each emitting call and the final m/x flags must equal the tracker. All immediate methods x all 256 tracker states are enumerated for 'refused exactly when the width disagrees, and a refused call changes nothing'.",
      "Programs that overwrite their own bytes (counted) and block moves exceeding the step budget are excluded by construction. Mid-program Assume calls are restricted to truthful ones.",
      "DESIGN.md section 3 C07")
claim("C15", "rapid-prop",
      "model-based property test (rapid): listings parsed and walked in lockstep with the model's line records",
      "Histories with listing on (data blocks of 0..80 bytes around the 16-byte chunk size, comments up to 300 characters, labels, references, base) are listed before and after Finalize, with a buffer exactly as large as the program in a quarter of the cases: the hex listing's byte tokens must concatenate to Bytes(); every instruction/db line of the text listing must carry the model's address and exactly its bytes; labels, comments and base directives must appear where issued; both writers must return nil and leave the program unchanged.",
      "Trusted: harness/asmcat model of line records. Comments/labels contain no line breaks; refused calls are not part of these histories.",
      "DESIGN.md section 3 C15")
claim("C16", "rapid-prop",
      "differential property test (rapid): direct emitter versus Clone+Append at every kind of split point",
      "For a drawn history and split point the head goes to an emitter A, the tail to A.Clone(), then A.Append(clone); a direct emitter D gets everything. A must be unchanged (bytes, length, PC, flags, all labels, both listings) until Append although the clone is emitted into, listed and finalised; after Append A must equal D on all observables, keep behaving like D for further calls, agree on Finalize's verdict and finalized bytes; an Append that is 1-4 bytes too large must panic and change nothing.",
      "The oracle is the direct emitter (no model) except for classifying cross-split references. Bounded histories (30 ops quick, 80 thorough).",
      "DESIGN.md section 3 C16")
claim("C19", "rapid-prop",
      "model-based property test (rapid) with capacities solved to end inside instructions; dry-run emitter compared with a buffered one",
      "A history is run on an emitter whose capacity ends exactly at, or 1-3 bytes inside, a drawn instruction or data block (also 0 and full size): each call must be accepted iff it fits, a refused call must leave bytes, length, PC and labels untouched (and must not leave a dangling reference behind: Finalize is checked afterwards), Len <= Cap always. The same history on NewEmitter(nil, ...) must report the same PC, label addresses and flags after every call as a buffered emitter, with Len()==0.",
      "Trusted: harness/asmcat capacity rule (accepted iff len+need <= cap).",
      "DESIGN.md section 3 C19")
claim("C18", "race-rig",
      "metamorphic property test (rapid): sequential versus concurrent digests of seed-determined workloads, under the Go race detector",
      "Each round draws 14-32 workloads (every kind at least twice: emulator.System with logger, System with the real memory map, cpu65c816, cpualt, emitter with listings/Clone/Finalize, ROM header and bus readers/writers, mapper and colour functions), runs them one after another on fresh instances, then all at once on goroutines released together in a -race binary; every digest must be unchanged and any race report is a violation (the round is saved before it runs and named as the replay). This is the weak one: the harness does not own the scheduler, so only interleavings that occurred are covered; the race detector's happens-before analysis flags conflicting accesses regardless of exact timing, but a write to shared state on a path no workload takes stays hidden.",
      "Trusted: the Go race detector; workloads avoid observables that are order-dependent even sequentially (which failing label Finalize names).",
      "DESIGN.md section 3 C18")
for e in ENGINES:
    e["serves_properties"] = sorted(k for k, v in CLAIMED.items() if v["engine"] == e["name"])
