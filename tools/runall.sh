#!/bin/bash
# usage: tools/runall.sh [tier] [seed...]   runs every check and prints one line per check
tier=${1:-quick}; shift
seeds=${@:-1}
cd "$(dirname "$(readlink -f "$0")")/.."
for s in $seeds; do
  for id in C01 C02 C03 C04 C05 C06 C07 C08 C09 C10 C11 C12 C13 C14 C15 C16 C17 C18 C19; do
    t0=$(date +%s)
    VERIF_SEED=$s ./check $id --tier $tier > /tmp/runall_$$_$id.log 2>&1; rc=$?
    t1=$(date +%s)
    echo "seed=$s $id rc=$rc $((t1-t0))s $(grep -c '^VIOLATION' /tmp/runall_$$_$id.log) viol $(grep -c '^KNOWN-FINDING' /tmp/runall_$$_$id.log) known | $(tail -1 /tmp/runall_$$_$id.log | cut -c1-120)"
    if [ $rc -ne 0 ]; then cp /tmp/runall_$$_$id.log /tmp/runall_$$_fail_${id}_seed$s.log; fi
  done
done
