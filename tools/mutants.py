#!/usr/bin/python3
"""Sensitivity suite: applies one small mutation at a time to /repo (working tree only, always
restored), runs the quick check of the properties it should break, and reports killed / survived.

usage: tools/mutants.py [name-substring ...]      (no argument = all)
The specs live in /verif/mutants/specs.py: M(name, [ids], file, old, new, count=1)
"""
import os, subprocess, sys, time

VERIF = os.path.dirname(os.path.dirname(os.path.abspath(__file__)))
REPO = "/repo"
SPECS = []


def M(name, ids, file, old, new, count=1, note=""):
    SPECS.append(dict(name=name, ids=ids, file=file, old=old, new=new, count=count, note=note))


exec(open(os.path.join(VERIF, "mutants", "specs.py")).read())


def sh(cmd, **kw):
    return subprocess.run(cmd, shell=True, stdout=subprocess.PIPE, stderr=subprocess.STDOUT, text=True, errors="replace", **kw)


def main():
    filt = sys.argv[1:]
    if sh("git -C /repo diff --quiet").returncode != 0:
        print("/repo has uncommitted changes; refusing")
        return 2
    env = dict(os.environ, GOFLAGS="-mod=mod", GOPROXY="off", GOSUMDB="off", GOTOOLCHAIN="local")
    results = []
    for s in SPECS:
        if filt and not any(f in s["name"] for f in filt):
            continue
        path = os.path.join(REPO, s["file"])
        src = open(path).read()
        if src.count(s["old"]) < 1:
            results.append((s["name"], "SPEC-STALE", ""))
            print(s["name"], "SPEC-STALE (old text not found)")
            continue
        if s["count"] == 0:
            mutated = src.replace(s["old"], s["new"])
        else:
            if src.count(s["old"]) != s["count"] and s["count"] == 1 and src.count(s["old"]) > 1:
                # replace only the first occurrence
                pass
            mutated = src.replace(s["old"], s["new"], 1)
        try:
            open(path, "w").write(mutated)
            b = sh("cd /repo && go build ./... && go vet ./... >/dev/null 2>&1; go build ./...", env=env)
            if b.returncode != 0:
                results.append((s["name"], "NO-BUILD", b.stdout[-300:]))
                print(s["name"], "NO-BUILD", b.stdout[-300:])
                continue
            bl = sh(os.path.join(VERIF, "tools", "baseline.sh") + " /repo", env=env)
            base_ok = bl.returncode == 0
            for pid in s["ids"]:
                t0 = time.time()
                c = sh(os.path.join(VERIF, "check") + " " + pid, env=env)
                verdict = {0: "SURVIVED", 1: "KILLED", 2: "INFRA"}.get(c.returncode, "rc%d" % c.returncode)
                why = ""
                for line in c.stdout.splitlines():
                    if "violation (" in line or "failed after" in line or "panic after" in line:
                        why = line.strip()[:220]
                        break
                results.append((s["name"], pid, verdict))
                print("%-40s %s %-8s baseline=%s %.0fs %s" % (s["name"], pid, verdict, "pass" if base_ok else "FAIL", time.time() - t0, why))
                sys.stdout.flush()
        finally:
            open(path, "w").write(src)
    sh("git -C /repo checkout -- .")
    surv = [r for r in results if r[2] in ("SURVIVED", "INFRA") or r[1] in ("SPEC-STALE", "NO-BUILD")]
    print("\n%d runs, %d not killed" % (len(results), len(surv)))
    for r in surv:
        print("  NOT KILLED:", r)
    return 0


if __name__ == "__main__":
    sys.exit(main())
