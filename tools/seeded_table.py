#!/usr/bin/python3
"""Prints a markdown table of the seeded defects under /verif/seeded and which checks caught them."""
import json, os, glob
rows = []
for d in sorted(glob.glob('/verif/seeded/*/meta.json')):
    m = json.load(open(d))
    name = m['name']
    res = m.get('quick_check_results', {})
    caught = [k for k, v in res.items() if v['verdict'] == 'CAUGHT']
    missed = [k for k, v in res.items() if v['verdict'] != 'CAUGHT']
    first = ''
    notes = m.get('needs_to_manifest', '')
    # first sentence of the notes as a summary
    summ = ''
    for line in notes.splitlines():
        line = line.strip('# *-').strip()
        if len(line) > 30:
            summ = line[:150]
            break
    rows.append((name, m['breaks_property'], 'yes' if m.get('confirmed') else 'NO', ' '.join(caught), ' '.join(missed), summ))
print('| seed | property | confirmed | caught by (quick) | run but silent | what it is |')
print('|---|---|---|---|---|---|')
for r in rows:
    print('| %s | %s | %s | %s | %s | %s |' % r)
