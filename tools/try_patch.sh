#!/bin/bash
# usage: tools/try_patch.sh <patch.diff> <ID> [<ID>...]
# Applies a patch to /repo, runs the quick checks, and always restores /repo.
p=$(readlink -f "$1"); shift
cd /repo || exit 2
if ! git diff --quiet; then echo "/repo has uncommitted changes"; exit 2; fi
git apply "$p" || { echo "patch does not apply"; exit 2; }
trap 'git -C /repo checkout -- . ' EXIT
(cd /repo && GOFLAGS=-mod=mod go build ./... ) || { echo "does not build"; exit 2; }
for id in "$@"; do
  /verif/check "$id" > /tmp/try_$$.log 2>&1; rc=$?
  echo "== $id exit=$rc $(grep -c '^VIOLATION' /tmp/try_$$.log) violation line(s)"
  grep -m3 -E 'violation \(|failed after|panic' /tmp/try_$$.log | cut -c1-300
  rm -f /tmp/try_$$.log
done
