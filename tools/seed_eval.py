#!/usr/bin/python3
"""Confirms a seeded defect delivered by a sub-agent and stores it under /verif/seeded/<name>/.

usage: tools/seed_eval.py <agent-out-dir> <seed-name> <property-id> [<extra check ids>...]

Steps (all in a scratch worktree outside /repo and /verif, removed afterwards):
  1. the demonstration passes on the unchanged tree
  2. the patch applies, `go build ./...` and `go vet ./...` succeed, the 402 baseline tests still pass
  3. the demonstration fails with the patch
Then the patch is applied to /repo's working tree, the quick checks are run, and /repo is restored.
"""
import json, os, re, shutil, subprocess, sys, time

VERIF = os.path.dirname(os.path.dirname(os.path.abspath(__file__)))
ENV = dict(os.environ, GOFLAGS="-mod=mod", GOPROXY="off", GOSUMDB="off", GOTOOLCHAIN="local")


def sh(cmd, cwd=None, timeout=1800):
    p = subprocess.run(cmd, shell=True, cwd=cwd, env=ENV, stdout=subprocess.PIPE, stderr=subprocess.STDOUT, text=True, errors="replace", timeout=timeout)
    return p.returncode, p.stdout


def run_demo(src, wt):
    """returns (ok, output); installs the demo into the worktree, runs it, removes it."""
    test = os.path.join(src, "demo_test.go")
    if os.path.exists(test):
        first = open(test).readline()
        m = re.search(r"copy to:\s*(\S+)", first)
        d = m.group(1).strip("./") if m else "."
        dst = os.path.join(wt, d, "zz_seed_demo_test.go")
        shutil.copy(test, dst)
        try:
            rc, out = sh("go test -count=1 -vet=off -run . ./%s 2>&1 | tail -40" % d, cwd=wt)
            rc2, _ = sh("go test -count=1 -vet=off ./%s >/dev/null 2>&1" % d, cwd=wt)
            # demo tests have their own names; judge by the demo's test functions only
            names = re.findall(r"^func (Test\w+)", open(test).read(), re.M)
            rc3, out3 = sh("go test -count=1 -vet=off -run '^(%s)$' ./%s 2>&1 | tail -40" % ("|".join(names), d), cwd=wt)
            return rc3 == 0 and "FAIL" not in out3, out3
        finally:
            os.remove(dst)
    prog = os.path.join(src, "demo")
    if os.path.isdir(prog):
        dst = os.path.join(wt, "zz_seed_demo")
        shutil.copytree(prog, dst)
        try:
            race = "-race " if "race" in open(os.path.join(src, "NOTES.md")).read().lower() and "go run -race" in open(os.path.join(src, "NOTES.md")).read() else ""
            rc, out = sh("go run %s./zz_seed_demo 2>&1 | tail -40" % race, cwd=wt)
            rc, out = sh("go run %s./zz_seed_demo >/tmp/zz_demo_out.txt 2>&1; echo rc=$?; tail -30 /tmp/zz_demo_out.txt" % race, cwd=wt)
            return "rc=0" in out.splitlines()[0], out
        finally:
            shutil.rmtree(dst)
    return None, "no demonstration found"


def main():
    src, name, pid = sys.argv[1], sys.argv[2], sys.argv[3]
    extra = sys.argv[4:]
    patch = os.path.join(src, "patch.diff")
    meta = {"name": name, "breaks_property": pid, "source": "independent sub-agent given only the property text and a scratch worktree"}
    wt = "/tmp/wt/verify_%d" % os.getpid()
    sh("git -C /repo worktree add -q --detach %s HEAD" % wt)
    try:
        ok0, out0 = run_demo(src, wt)
        meta["demo_passes_without_patch"] = ok0
        rc, out = sh("git apply %s" % patch, cwd=wt)
        if rc != 0:
            rc, out = sh("git apply --3way %s" % patch, cwd=wt)
        meta["patch_applies"] = rc == 0
        if rc != 0:
            print("patch does not apply:", out[-400:])
            print(json.dumps(meta, indent=1))
            return 1
        rc, out = sh("go build ./... && go vet ./...", cwd=wt)
        meta["builds_and_vets"] = rc == 0
        rc, out = sh(os.path.join(VERIF, "tools", "baseline.sh") + " " + wt)
        meta["baseline_402_pass"] = rc == 0
        meta["baseline_out"] = out.strip().splitlines()[-1] if out.strip() else ""
        ok1, out1 = run_demo(src, wt)
        meta["demo_fails_with_patch"] = (ok1 is False)
        meta["demo_output_with_patch"] = out1[-1500:]
    finally:
        sh("git -C /repo worktree remove --force %s" % wt)
    # run the checks against /repo with the patch applied
    rc, _ = sh("git -C /repo diff --quiet")
    if rc != 0:
        print("/repo dirty; refusing")
        return 2
    rc, out = sh("git apply %s || git apply --3way %s" % (patch, patch), cwd="/repo")
    results = {}
    try:
        for cid in [pid] + extra:
            t0 = time.time()
            rc, out = sh(os.path.join(VERIF, "check") + " " + cid)
            verdict = {0: "MISSED", 1: "CAUGHT", 2: "NO-VERDICT"}.get(rc, "rc%d" % rc)
            why = ""
            for line in out.splitlines():
                if "violation (" in line or "failed after" in line or "panic after" in line or "DATA RACE" in line:
                    why = line.strip()[:400]
                    break
            results[cid] = {"verdict": verdict, "wall_s": round(time.time() - t0, 1), "first_report": why}
            print(name, cid, verdict, why[:200])
    finally:
        sh("git -C /repo checkout -- . && git -C /repo clean -fdq", cwd="/repo")
    meta["quick_check_results"] = results
    meta["what_i_ran"] = "tools/seed_eval.py: demo on clean scratch worktree; git apply; go build/vet; tools/baseline.sh; demo again; then git -C /repo apply, ./check <id> (quick), git -C /repo checkout -- ."
    notes = os.path.join(src, "NOTES.md")
    if os.path.exists(notes):
        meta["needs_to_manifest"] = open(notes).read()[:3000]
    dst = os.path.join(VERIF, "seeded", name)
    os.makedirs(dst, exist_ok=True)
    shutil.copy(patch, os.path.join(dst, "patch.diff"))
    for f in ("demo_test.go", "NOTES.md"):
        if os.path.exists(os.path.join(src, f)):
            shutil.copy(os.path.join(src, f), os.path.join(dst, f))
    if os.path.isdir(os.path.join(src, "demo")):
        shutil.rmtree(os.path.join(dst, "demo"), ignore_errors=True)
        shutil.copytree(os.path.join(src, "demo"), os.path.join(dst, "demo"))
    confirmed = bool(meta.get("demo_passes_without_patch")) and meta.get("builds_and_vets") and meta.get("baseline_402_pass") and meta.get("demo_fails_with_patch")
    meta["confirmed"] = bool(confirmed)
    json.dump(meta, open(os.path.join(dst, "meta.json"), "w"), indent=1)
    print("confirmed" if confirmed else "NOT CONFIRMED", {k: v for k, v in meta.items() if k.startswith(("demo_", "builds", "baseline_402", "patch_"))and k != "demo_output_with_patch"})
    return 0


if __name__ == "__main__":
    sys.exit(main())
