#!/bin/bash
# Runs the repository's test suite (no build tags = hooks off) and compares the set of passing
# tests with /root/.vp/BASELINE.json stable_pass.  exit 0 iff every stable test still passes.
export GOFLAGS=-mod=mod GOPROXY=off GOSUMDB=off GOTOOLCHAIN=local
REPO=${1:-/repo}
out=$(mktemp)
(cd "$REPO" && go test -json -vet=off -count=1 -timeout 25m ./... > "$out" 2>/dev/null)
/usr/bin/python3 - "$out" <<'PY'
import json,sys
base=json.load(open('/root/.vp/BASELINE.json'))
want=set(base['stable_pass'])
got=set()
for line in open(sys.argv[1]):
    try: e=json.loads(line)
    except Exception: continue
    if e.get('Action')=='pass' and e.get('Test'):
        got.add(e['Package']+'::'+e['Test'])
missing=sorted(want-got)
print("baseline: %d of %d stable tests pass"%(len(want&got),len(want)))
for m in missing[:20]: print("  MISSING", m)
sys.exit(1 if missing else 0)
PY
rc=$?
rm -f "$out"
exit $rc
