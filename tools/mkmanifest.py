#!/usr/bin/python3
"""Generates /verif/MANIFEST.json from the table below (keeps it valid at all times)."""
import json, os, sys

VERIF = os.path.dirname(os.path.dirname(os.path.abspath(__file__)))

# id -> dict(technique, text, note, ref, engine)
CLAIMED = {}

def claim(pid, engine, technique, text, note, ref):
    CLAIMED[pid] = dict(engine=engine, technique=technique, text=text, note=note, ref=ref)

exec(open(os.path.join(VERIF, "tools", "claims.py")).read())

props = [json.loads(l) for l in open(os.path.join(VERIF, "properties.jsonl"))]
checks = []
na = []
for p in props:
    pid = p["id"]
    if pid in CLAIMED:
        c = CLAIMED[pid]
        checks.append({
            "property_id": pid,
            "quick_cmd": "./check %s --tier quick" % pid,
            "thorough_cmd": "./check %s --tier thorough" % pid,
            "evidence_file": "/verif/evidence/%s.json" % pid,
            "replay_cmd_template": "./check %s --replay {path}" % pid,
            "engine": c["engine"],
            "level_claimed": {"category": "exploration", "text": c["text"], "design_ref": c["ref"]},
            "level_note": c["note"],
            "technique": c["technique"],
        })
    else:
        na.append({"property_id": pid, "reason": NOT_CLAIMED.get(pid, "check not built yet in this session (planned in DESIGN.md section 3); not claimed until it runs green on the unchanged tree")})

manifest = {
    "version": 1,
    "setup_cmd": "cd /verif/harness && GOFLAGS=-mod=mod GOPROXY=off GOSUMDB=off GOTOOLCHAIN=local go test -c -vet=off -tags verif -o /dev/null ./props && GOFLAGS=-mod=mod GOPROXY=off GOSUMDB=off GOTOOLCHAIN=local go test -c -race -vet=off -tags verif -o /dev/null ./props",
    "hooks": {
        "guard": "verif",
        "enable": "go build tag `verif` (the driver always passes -tags verif); no source in /repo is guarded by it today: every observation point is an exported field, a return value, an io.Writer or a memory.Memory supplied by the harness",
        "baseline_off_cmd": "/verif/tools/baseline.sh /repo",
        "source_commits": [],
        "add_only": True,
    },
    "engines": ENGINES,
    "checks": checks,
    "notes": NOTES,
    "not_applicable": na,
}
out = os.path.join(VERIF, "MANIFEST.json")
json.dump(manifest, open(out, "w"), indent=1)
print("wrote", out, "claimed", len(checks), "not claimed", len(na))
try:
    import jsonschema
    jsonschema.validate(manifest, json.load(open("/root/.vp/MANIFEST.schema.json")))
    print("schema ok")
except ImportError:
    pass
